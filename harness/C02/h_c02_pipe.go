package extractor

import (
	"strings"

	"github.com/go-shiori/dom"
	"github.com/markusmobius/go-domdistiller/internal/converter"
	"github.com/markusmobius/go-domdistiller/internal/domutil"
	"github.com/markusmobius/go-domdistiller/internal/webdoc"
	vx "github.com/markusmobius/go-domdistiller/internal/zzverif"
)

// block kinds of an article-like page; %a %b %c are unique visible tokens,
// %h tokens are inside hidden elements (must never appear)
var c02Blocks = []string{
	`<p>%a <b>%b</b> %c</p>`,
	`<h2>%a %b</h2>`,
	`<ul><li>%a</li><li>%b <a href="/l">%c</a></li></ul>`,
	`<blockquote>%a <span>%b</span></blockquote>`,
	`<pre>%a
  %b</pre>`,
	`<table><thead><tr><th>%a</th><th>%b</th></tr></thead><tbody><tr><td>%c</td><td><span hidden>%h</span>x%a</td></tr></tbody></table>`,
	`<table><tr><td>%a</td><td>%b</td></tr></table>`,
	`<figure><img src="f.png"><figcaption>%a <a href="/c">%b</a></figcaption></figure>`,
	`<div class="links"><a href="/1">%a</a> <a href="/2">%b</a> <a href="/3">%c</a></div>`,
	`<div style="display:none"><p>%h</p></div>`,
	`%a <a href="javascript:void(0)">%b</a> %c `,
	`<p><font color="red">%a</font> %b</p>`,
	`<figure><noscript><img src="r.png" alt="%h"></noscript><img data-src="l.png" src="data:image/gif;base64,R0"><figcaption>%a</figcaption></figure>`,
	`%a <table role="grid"><tr><td>%b</td><td>%c</td></tr><tr><td>y%b</td><td>y%c</td></tr></table> z%a`,
	`<div style="DISPLAY: none"><p>%h</p></div><p>%a <span style="VISIBILITY:hidden">%h</span></p>`,
	`<p>%a <span style="color:red; visibility:hidden">%h</span> <font style="margin:0;display:none" color="red">%h</font></p>`,
	`<figure><img src="g.png"><figcaption>%a<br>%b <span hidden>%h</span><div>%c</div></figcaption></figure>`,
	`<p>%a x<b>%b</b> <i>y</i>%c</p>`,
	`<div>z%a</div><table><caption><b>%a</b> <i>%b</i></caption><thead><tr><th>h</th><th>h</th></tr></thead><tr><td><b>%c</b> <i>x%a</i></td><td><a href="/q">y%b</a> <span>y%c</span></td></tr></table>`,
	`<figure><a href="/f"><img src="h.png"><figcaption>%a %b</figcaption></a></figure><figure><a href="/g"><img src="k.png"> <span>%c</span></a></figure>`,
	`<div>%a <table><caption>%b</caption><thead><tr><th>h</th></tr></thead><tr><td>%c</td></tr></table> z%a</div>`,
	// inline hiding declarations with !important / trailing tokens (round k)
	`<p>%a <span style="visibility:hidden !important">%h</span> <i style="visibility: collapse!important;color:red">%h</i> <u style="display:none !important">%h</u> %b</p>`,
}

type c02Counter struct{}

func (c02Counter) Count(s string) int { return len(strings.Fields(s)) }

// visible tokens of each block kind, in source order (suffixes after the
// per-slot prefix; "x"/"y"/"z" forms are the prefixed variants)
var c02Visible = [][]string{
	{"a", "b", "c"}, {"a", "b"}, {"a", "b", "c"}, {"a", "b"}, {"a", "b"},
	{"a", "b", "c", "xa"}, {"a", "b"}, {"a", "b"}, {"a", "b", "c"}, {},
	{"a", "b", "c"}, {"a", "b"}, {"a"}, {"a", "b", "c", "yb", "yc", "za"},
	{"a"},
	{"a"},
	{"a", "b", "c"},
	{"a", "xb", "yc"},
	{"za", "a", "b", "c", "xa", "yb", "yc"},
	{"a", "b", "c"},
	{"a", "b", "c", "za"},
	{"a", "b"},
}

func c02Page(n int) (string, []string) {
	body := ""
	var order []string
	for i := 0; i < n; i++ {
		k := vx.Choose("block", vx.Param("kinds", len(c02Blocks)))
		blk := c02Blocks[k]
		p := "w" + string(rune('a'+i))
		for _, suf := range c02Visible[k] {
			if len(suf) == 2 {
				order = append(order, suf[:1]+p+suf[1:])
			} else {
				order = append(order, p+suf)
			}
		}
		for _, c := range []string{"a", "b", "c", "h"} {
			blk = strings.ReplaceAll(blk, "%"+c, p+c)
		}
		body += blk + "\n"
	}
	return "<html><head><title>T</title></head><body><div>" + body + "</div></body></html>", order
}

func c02Check(words []string, order []string, view string) {
	pos := map[string]int{}
	for i, w := range order {
		pos[w] = i
	}
	last := -1
	seen := map[string]bool{}
	for _, w := range words {
		p, ok := pos[w]
		if !ok {
			if strings.HasPrefix(w, "w") && len(w) == 3 && strings.HasSuffix(w, "h") {
				vx.Assert(false, view+": a word of a hidden element was emitted")
			} else if w != "h" {
				vx.Assert(false, view+": a word that is not a visible word of the source was emitted")
			}
			continue
		}
		vx.Assert(!seen[w], view+": a source word is emitted twice")
		seen[w] = true
		vx.Assert(p > last, view+": emitted words are not in source order")
		if p > last {
			last = p
		}
	}
}

// HarnessC02Excerpt: n blocks of every kind, unique tokens, arbitrary content
// flag per element: the words of the text view and of the HTML view are a
// subsequence (no repeats, same order) of the source's visible words.
func HarnessC02Excerpt() {
	page, order := c02Page(vx.Param("n", 2))
	doc := vx.ParseHTML(page)
	b := webdoc.NewWebDocumentBuilder(c02Counter{}, nil)
	converter.NewDomConverter(converter.Default, b, nil, nil).Convert(dom.QuerySelector(doc, "html"))
	wd := b.Build()
	for _, e := range wd.Elements {
		if _, isTag := e.(*webdoc.Tag); isTag {
			e.SetIsContent(true)
		} else {
			e.SetIsContent(vx.NondetBool("content"))
		}
	}
	text := wd.GenerateOutput(true)
	c02Check(strings.Fields(text), order, "text")
	htm := wd.GenerateOutput(false)
	od := vx.ParseHTML("<html><body>" + htm + "</body></html>")
	c02Check(strings.Fields(domutil.InnerText(dom.QuerySelector(od, "body"))), order, "html")
	if len(strings.Fields(text)) > 0 {
		vx.Cover("words")
	}
}
