package domutil

import (
	"strings"

	"github.com/go-shiori/dom"
	vx "github.com/markusmobius/go-domdistiller/internal/zzverif"
	"golang.org/x/net/html"
)

var c02Trees = []string{
	`<div><p>t1 <b>t2</b> t3 <a href="/x" title="k">t4 <i>t5</i></a> t6</p></div>`,
	`<div>t1<span></span>t2<b></b>t3<!-- c -->t4<a name="n"></a>t5</div>`,
	`<ul><li>t1 <em>t2</em></li><li><span><b>t3</b> t4</span> t5</li></ul>`,
	`<section><h2>t1</h2><p>t2<br>t3</p><div><div>t4</div></div>t5</section>`,
}

func c02Leaves(n *html.Node, into *[]*html.Node) {
	if n.Type == html.TextNode {
		*into = append(*into, n)
	}
	for c := n.FirstChild; c != nil; c = c.NextSibling {
		c02Leaves(c, into)
	}
}

// HarnessC02TreeClone: for each tree shape and every subset of its text
// leaves (one Boolean per leaf), the clone's text leaves are exactly the
// chosen leaves, each once, in document order.
func HarnessC02TreeClone() {
	doc := vx.ParseHTML("<html><body>" + c02Trees[vx.Choose("tree", len(c02Trees))] + "</body></html>")
	var leaves, chosen []*html.Node
	c02Leaves(dom.QuerySelector(doc, "body"), &leaves)
	want := ""
	for _, l := range leaves {
		if vx.NondetBool("pick") {
			chosen = append(chosen, l)
			want += l.Data + "|"
		}
	}
	if len(chosen) == 0 {
		// a list made of one ELEMENT node (as GetOutputNodes yields for a subtree
		// whose descendants are all filtered out): the clone must not bring back
		// descendants that are not listed
		els := dom.GetElementsByTagName(dom.QuerySelector(doc, "body"), "*")
		e := els[vx.Choose("elem", len(els))]
		c := TreeClone([]*html.Node{e})
		vx.Assert(c != nil && c.FirstChild == nil && c.Data == e.Data, "clone of a single listed element contains nodes that are not in the list")
		vx.Cover("single-element")
		return
	}
	clone := TreeClone(chosen)
	vx.Assert(clone != nil, "TreeClone returned nil for a non-empty list")
	if clone == nil {
		return
	}
	var got []*html.Node
	c02Leaves(clone, &got)
	s := ""
	for _, g := range got {
		s += g.Data + "|"
	}
	vx.Cover("clone")
	vx.Assert(s == want, "clone does not contain exactly the listed text nodes in document order: want "+strings.ReplaceAll(want, "|", " "))
}
