package pagination

import (
	nurl "net/url"
	"strings"

	"github.com/go-shiori/dom"
	"github.com/markusmobius/go-domdistiller/internal/stringutil"
	vx "github.com/markusmobius/go-domdistiller/internal/zzverif"
)

func c16Lower(s string) string { // ASCII-only lower-casing: hosts are case-insensitive in ASCII only
	b := []byte(s)
	for i, c := range b {
		if c >= 'A' && c <= 'Z' {
			b[i] = c + 32
		}
	}
	return string(b)
}

// c16Canon: drop the fragment and the trailing slashes of the path, lower-case
// scheme and host (the normalisation choices of the implementation are not
// second-guessed: both sides of a comparison go through this).
func c16Canon(s string) (string, bool) {
	u, err := nurl.Parse(s)
	if err != nil {
		return "", false
	}
	u.Fragment, u.RawFragment = "", ""
	for strings.HasSuffix(u.Path, "/") {
		u.Path = strings.TrimSuffix(u.Path, "/")
	}
	u.RawPath = ""
	u.Scheme = c16Lower(u.Scheme)
	u.Host = c16Lower(u.Host)
	return stringutil.UnescapedString(u), true
}

func c16Check(res string, which string, pageURL *nurl.URL, hrefs []string) {
	if res == "" {
		vx.Cover(which + "-empty")
		return
	}
	vx.Cover(which + "-found")
	u, err := nurl.Parse(res)
	vx.Assert(err == nil, which+" is not a parseable URL")
	if err != nil {
		return
	}
	vx.Assert(u.Scheme == "http" || u.Scheme == "https", which+" is not an http(s) URL")
	vx.Assert(u.Host != "", which+" has an empty host")
	vx.Assert(c16Lower(u.Host) == c16Lower(pageURL.Host), which+" is not on the host of the page URL")
	cr, _ := c16Canon(res)
	found := false
	for _, h := range hrefs {
		if h == "" {
			continue
		}
		abs := stringutil.CreateAbsoluteURL(h, pageURL)
		if ca, ok := c16Canon(abs); ok && ca == cr {
			found = true
		}
	}
	vx.Assert(found, which+" is not the normalised target of an anchor of the document")
}

var c16Heads = []string{"", "/", "?", "#", "http://h.t/", "HTTP://H.T/", "http://x.t/", "javascript:", "mailto:", "//h.t/", "//x.t/", "http://h.t.x.t/", "http://h.t:8080/", "http://h.t@x.t/", "story/"}
var c16Texts = []string{"next", "3", "prev", "Next page", "Previous", "1"}

// HarnessC16PrevNext: one or two anchors whose href is a head from the menu of
// URL kinds followed by an arbitrary tail; both directions of the prev/next
// algorithm. A non-empty result is an http(s) URL on the page's host and the
// normalised target of one of the anchors.
func HarnessC16PrevNext() {
	pageURL, _ := nurl.Parse([]string{"http://h.t/story/2", "http://h.t/a?page=2", "http://h.t/p/2/"}[vx.Choose("pageurl", 3)])
	head := c16Heads[vx.Choose("head", vx.Param("heads", len(c16Heads)))]
	tail := vx.NondetStringIn("tail", vx.Param("tail", 3), "a/3?=.")
	href := head + tail
	text := c16Texts[vx.Choose("text", vx.Param("texts", len(c16Texts)))]
	cls := []string{"", "pagination prev", "next"}[vx.Choose("class", vx.Param("classes", 3))]
	second := ""
	href2 := ""
	if vx.Choose("second", 2) == 1 {
		href2 = "/story/1"
		second = `<a href="` + href2 + `">previous</a> `
	}
	doc := vx.ParseHTML(`<html><body><div class="pager"><p>words</p>` + second + `<a href="H" class="` + cls + `">` + text + `</a></div></body></html>`)
	as := dom.GetElementsByTagName(doc, "a")
	dom.SetAttribute(as[len(as)-1], "href", href)
	info := NewPrevNextFinder(nil).FindPagination(doc, pageURL)
	c16Check(info.NextPage, "NextPage", pageURL, []string{href, href2})
	c16Check(info.PrevPage, "PrevPage", pageURL, []string{href, href2})
}

// HarnessC16Folding: hosts that differ only by Unicode case folding (k, K,
// U+212A KELVIN SIGN; s, U+017F) are different hosts. Concrete probes.
func HarnessC16Folding() {
	hosts := []string{"k.t", "K.t", "K.t", "s.t", "ſ.t", "xk.t", "xK.t"}
	ph := hosts[vx.Choose("pagehost", len(hosts))]
	lh := hosts[vx.Choose("linkhost", len(hosts))]
	pageURL, err := nurl.Parse("http://" + ph + "/story/2")
	if err != nil {
		return
	}
	href := "http://" + lh + "/story/" + []string{"3", "1", "3/", "x3"}[vx.Choose("tail", 4)]
	if vx.Choose("algo", 2) == 1 {
		// the page-number algorithm on a conventional pager "1 [2] [3]" whose
		// links sit on the (possibly look-alike) link host (round k)
		pageURL, err = nurl.Parse("http://" + ph + "/story/1")
		if err != nil {
			return
		}
		h2, h3 := "http://"+lh+"/story/2", "http://"+lh+"/story/3"
		doc := vx.ParseHTML(`<html><body><p>some words</p><div class="pager">1 <a href="` + h2 + `">2</a> <a href="` + h3 + `">3</a></div></body></html>`)
		info := NewPageNumberFinder(c16Words{}, nil, nil).FindPagination(doc, pageURL)
		if ph == lh {
			vx.Cover("folding-pagenumber-same")
			vx.Assert(info.NextPage != "", "page-number pager on the page's own host is not resolved")
		}
		c16Check(info.NextPage, "NextPage", pageURL, []string{h2, h3})
		c16Check(info.PrevPage, "PrevPage", pageURL, []string{h2, h3})
		return
	}
	text := []string{"next", "prev", "3"}[vx.Choose("text", 3)]
	// a <base> element naming the link's host (asset host): the page is still the page
	base := []string{"", `<head><base href="http://` + lh + `/assets/"></head>`}[vx.Choose("base", 2)]
	doc := vx.ParseHTML(`<html>` + base + `<body><div class="pager"><a href="` + href + `" class="next">` + text + `</a> <a href="/story/1">previous</a></div></body></html>`)
	info := NewPrevNextFinder(nil).FindPagination(doc, pageURL)
	c16Check(info.NextPage, "NextPage", pageURL, []string{href, "/story/1"})
	c16Check(info.PrevPage, "PrevPage", pageURL, []string{href, "/story/1"})
}

type c16Words struct{}

func (c16Words) Count(s string) int { return len(strings.Fields(s)) }

// HarnessC16PageNumber: pagers of n entries, each entry plain text, a real
// link, a javascript: link, an empty-href link, a fragment link or an off-site
// link; the page-number algorithm returns "" or the URL of a real same-site link.
func HarnessC16PageNumber() {
	n := 2 + vx.Choose("n", vx.Param("n", 4)-1)
	family := vx.Choose("family", 3)
	mkURL := func(i int) string {
		switch family {
		case 0:
			return "http://h.t/a?page=" + string(rune('0'+i))
		case 1:
			return "http://h.t/story/" + string(rune('0'+i))
		}
		return "http://h.t/dir/?page=" + string(rune('0'+i))
	}
	cur := 1 + vx.Choose("cur", n)
	pageURL, _ := nurl.Parse(mkURL(cur))
	var hrefs []string
	body := ""
	for i := 1; i <= n; i++ {
		label := string(rune('0' + i))
		kind := vx.Choose("entry", 8)
		if i == cur {
			kind = 0
		}
		switch kind {
		case 0:
			body += label + " "
		case 1:
			hrefs = append(hrefs, mkURL(i))
			body += `<a href="` + mkURL(i) + `">` + label + `</a> `
		case 2:
			body += `<a href="javascript:void(0)">` + label + `</a> `
		case 3:
			body += `<a href="">` + label + `</a> `
		case 4:
			body += `<a href="#p` + label + `">` + label + `</a> `
		case 5:
			body += `<a href="http://x.t/a?page=` + label + `">` + label + `</a> `
		case 6: // (two spellings, alternating by position)
			body += []string{`<a href=" javascript:void(0)">`, `<a href="JavaScript:;">`}[i%2] + label + `</a> `
		case 7: // a real link that carries a fragment
			hrefs = append(hrefs, mkURL(i)+"#posts")
			body += `<a href="` + mkURL(i) + `#posts">` + label + `</a> `
		}
	}
	doc := vx.ParseHTML(`<html><body><p>some words</p><div class="pager">` + body + `</div></body></html>`)
	info := NewPageNumberFinder(stringutil.SelectWordCounter("plain english text"), nil, nil).FindPagination(doc, pageURL)
	c16Check(info.NextPage, "NextPage", pageURL, hrefs)
	c16Check(info.PrevPage, "PrevPage", pageURL, hrefs)
}
