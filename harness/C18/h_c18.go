package tableclass

import (
	"strings"

	"github.com/go-shiori/dom"
	vx "github.com/markusmobius/go-domdistiller/internal/zzverif"
	"golang.org/x/net/html"
)

// c18Feat are the rule-relevant features PLANTED by the harness (the oracle
// never reads them back from the code under test).
type c18Feat struct {
	editable   bool   // an ancestor has contenteditable=true (any letter case)
	role       string // role attribute of the table ("" = absent/empty)
	cellRole   string // role attribute of one cell
	datatable  string // datatable attribute ("" = absent)
	nested     bool
	nestedRole bool   // cellRole sits on the nested <table> element itself instead of on a cell
	rows, cols int
	header     int // 0 none, 1 caption(with text), 2 thead, 3 tfoot, 4 colgroup, 5 col, 6 th(with text), 7 empty caption + thead, 8 blank caption + th(with text), 9 empty caption + col
	cellAttr   int // 0 none, 1 abbr, 2 headers, 3 scope, 4 lone <abbr> child
	summary    bool
	cells      int
	object     int // 0 none, 1 embed, 2 object, 3 applet, 4 iframe
}

func c18Landmark(r string) bool {
	return r == "application" || r == "banner" || r == "complementary" || r == "contentinfo" ||
		r == "form" || r == "main" || r == "navigation" || r == "search"
}

// c18Want is the decision list of the property statement, in its order.
func c18Want(f c18Feat) Type {
	role := strings.ToLower(f.role)
	crole := strings.ToLower(f.cellRole)
	switch {
	case f.editable:
		return Layout
	case role == "presentation":
		return Layout
	case role == "grid" || role == "treegrid" || c18Landmark(role):
		return Data
	case crole == "gridcell" || crole == "columnheader" || crole == "row" || crole == "rowgroup" || crole == "rowheader" || c18Landmark(crole):
		return Data
	case f.datatable == "0":
		return Layout
	case f.nested:
		return Layout
	case f.rows <= 1 || f.cols <= 1:
		return Layout
	case f.header != 0:
		return Data
	case f.cellAttr != 0:
		return Data
	case f.summary:
		return Data
	case f.cols >= 5:
		return Data
	case f.rows >= 20:
		return Data
	case f.cells <= 10:
		return Layout
	case f.object != 0:
		return Layout
	}
	return Data
}

func c18Span(s string) int { // value of a digit string as the code reads a span (0 or empty -> 1)
	n := 0
	for i := 0; i < len(s); i++ {
		n = n*10 + int(s[i]-'0')
	}
	if n == 0 {
		n = 1
	}
	return n
}

// c18Table renders the table; cellsPerRow gives the number of <td> in each row.
func c18Table(f c18Feat, cellsPerRow []int) string {
	var sb strings.Builder
	sb.WriteString(`<table role="R" datatable="D"`)
	if f.summary {
		sb.WriteString(` summary="s"`)
	}
	sb.WriteString(">")
	switch f.header {
	case 1:
		sb.WriteString("<caption>capt</caption>")
	case 7:
		sb.WriteString("<caption></caption><thead><tr><td>h</td><td>h</td></tr></thead>")
	case 8:
		sb.WriteString("<caption>  </caption>")
	case 9:
		sb.WriteString("<caption></caption><colgroup><col></colgroup>")
	case 4:
		sb.WriteString("<colgroup></colgroup>")
	case 5:
		sb.WriteString("<colgroup><col></colgroup>")
	case 2:
		sb.WriteString("<thead><tr><td>h</td><td>h</td></tr></thead>")
	}
	sb.WriteString("<tbody>")
	for r, n := range cellsPerRow {
		if r == 0 {
			sb.WriteString(`<tr rowspan="X">`)
		} else {
			sb.WriteString("<tr>")
		}
		for c := 0; c < n; c++ {
			switch {
			case r == 0 && c == 0:
				sb.WriteString(`<td colspan="Y" role="C">a</td>`)
			case r == 0 && c == 1 && (f.header == 6 || f.header == 8):
				sb.WriteString("<th>head</th>")
			case r == 1 && c == 0 && f.cellAttr == 1:
				sb.WriteString(`<td abbr="x">b</td>`)
			case r == 1 && c == 0 && f.cellAttr == 2:
				sb.WriteString(`<td headers="x">b</td>`)
			case r == 1 && c == 0 && f.cellAttr == 3:
				sb.WriteString(`<td scope="row">b</td>`)
			case r == 1 && c == 0 && f.cellAttr == 4:
				sb.WriteString("<td><abbr>b</abbr></td>")
			case r == 1 && c == 1 && f.nested && f.nestedRole:
				sb.WriteString(`<td><table role="N"><tr><td>n</td></tr></table></td>`)
			case r == 1 && c == 1 && f.nested:
				sb.WriteString("<td><table><tr><td>n</td></tr></table></td>")
			case r == 1 && c == 1 && f.object == 1:
				sb.WriteString("<td><embed src=\"e\"></td>")
			case r == 1 && c == 1 && f.object == 2:
				sb.WriteString("<td><object></object></td>")
			case r == 1 && c == 1 && f.object == 3:
				sb.WriteString("<td><applet></applet></td>")
			case r == 1 && c == 1 && f.object == 4:
				sb.WriteString("<td><iframe src=\"i\"></iframe></td>")
			default:
				sb.WriteString("<td>c</td>")
			}
		}
		sb.WriteString("</tr>")
	}
	sb.WriteString("</tbody>")
	if f.header == 3 {
		sb.WriteString("<tfoot><tr><td>f</td><td>f</td></tr></tfoot>")
	}
	sb.WriteString("</table>")
	return sb.String()
}

func c18Plant(t *html.Node, f c18Feat, rs, cs string) {
	dom.SetAttribute(t, "role", f.role)
	dom.SetAttribute(t, "datatable", f.datatable)
	if f.role == "" && vx.Choose("roleAbsent", 2) == 1 {
		dom.RemoveAttribute(t, "role")
	}
	if f.datatable == "" {
		dom.RemoveAttribute(t, "datatable")
	}
	for _, tr := range dom.GetElementsByTagName(t, "tr") {
		if dom.HasAttribute(tr, "rowspan") {
			dom.SetAttribute(tr, "rowspan", rs)
		}
	}
	for _, td := range dom.GetElementsByTagName(t, "td") {
		if dom.HasAttribute(td, "colspan") {
			dom.SetAttribute(td, "colspan", cs)
			if f.nestedRole {
				dom.RemoveAttribute(td, "role")
			} else {
				dom.SetAttribute(td, "role", f.cellRole)
			}
		}
	}
	for _, nt := range dom.GetElementsByTagName(t, "table") {
		if dom.HasAttribute(nt, "role") {
			dom.SetAttribute(nt, "role", f.cellRole)
		}
	}
}

func c18Run(f c18Feat, cellsPerRow []int, rs, cs string, tag string) {
	tbl := c18Table(f, cellsPerRow)
	ed := ""
	if f.editable {
		ed = ` contenteditable="` + []string{"true", "TRUE", "True"}[vx.Choose("edcase", 3)] + `"`
	} else if vx.Choose("edfalse", 2) == 1 {
		ed = ` contenteditable="false"`
	}
	doc := vx.ParseHTML(`<html><body><div` + ed + `><p>x</p>` + tbl + `</div><section` + ed + `><article><span>` + tbl + `</span></article></section></body></html>`)
	tables := dom.QuerySelectorAll(doc, "body > div > table, span > table")
	vx.Assert(len(tables) == 2, "harness: two copies of the table")
	if len(tables) != 2 {
		return
	}
	c18Plant(tables[0], f, rs, cs)
	c18Plant2(tables[1], tables[0])
	// one classifier instance per page, as the converter uses it; an earlier
	// classification of another table must not influence this one
	cl := NewClassifier(nil)
	switch vx.Choose("primer", 3) {
	case 1:
		pd := vx.ParseHTML(`<table><tr><td><table><tr><td>n</td></tr></table></td><td>b</td></tr><tr><td>c</td><td>d</td></tr></table>`)
		cl.Classify(dom.QuerySelector(pd, "table"))
	case 2:
		pd := vx.ParseHTML(`<table role="grid"><thead><tr><th>h</th><th>h</th></tr></thead><tr><td>c</td><td>d</td></tr></table>`)
		cl.Classify(dom.QuerySelector(pd, "table"))
	}
	got, _ := cl.Classify(tables[0])
	got2, _ := cl.Classify(tables[1])
	want := c18Want(f)
	if want == Data {
		vx.Cover("data")
	} else {
		vx.Cover("layout")
	}
	vx.Assert(got == want, tag+": classification differs from the documented cascade")
	vx.Assert(got2 == got, tag+": same table classified differently under another parent")
}

// c18Plant2 copies the planted attribute values to the second copy.
func c18Plant2(dst, src *html.Node) {
	var a, b []*html.Node
	a = append(append(a, src), dom.GetElementsByTagName(src, "*")...)
	b = append(append(b, dst), dom.GetElementsByTagName(dst, "*")...)
	for i := range a {
		if i < len(b) {
			b[i].Attr = append([]html.Attribute(nil), a[i].Attr...)
		}
	}
}

const c18RoleAlphabet = "abcdefghilmnoprstuvwdGP"

// HarnessC18Roles: rules 1-5 (editable area, role=presentation, ARIA roles on
// table and on a descendant, datatable=0) with arbitrary role strings, on a
// 2x2 table (layout by rule "<=10 cells") and an 11-cell table (data by
// default), so every verdict of the first five rules is distinguishable.
func HarnessC18Roles() {
	f := c18Feat{}
	maxRole := vx.Param("maxrole", 12)
	f.editable = vx.Choose("editable", 2) == 1
	which := vx.Choose("which", 4) // which attribute is symbolic on this path
	switch which {
	case 0:
		f.role = vx.NondetStringIn("role", maxRole, c18RoleAlphabet)
	case 1:
		f.cellRole = vx.NondetStringIn("cellrole", maxRole, c18RoleAlphabet)
		f.role = []string{"", "presentation", "none", "GRID"}[vx.Choose("trole", 4)]
	case 2:
		f.datatable = vx.NondetStringIn("datatable", 2, "01 ")
		f.role = []string{"", "main"}[vx.Choose("trole2", 2)]
		f.cellRole = []string{"", "row", "cell", "ROW", "GridCell", "Main"}[vx.Choose("crole2", 6)]
	case 3: // the role-bearing descendant is a nested table element
		f.nested, f.nestedRole = true, true
		f.cellRole = vx.NondetStringIn("cellrole", maxRole, c18RoleAlphabet)
	}
	var cellsPerRow []int
	if vx.Choose("size", 2) == 0 {
		cellsPerRow, f.rows, f.cols, f.cells = []int{2, 2}, 2, 2, 4
	} else {
		cellsPerRow, f.rows, f.cols, f.cells = []int{4, 4, 3}, 3, 4, 11
	}
	c18Run(f, cellsPerRow, "", "", "roles")
}

// HarnessC18Structure: rules 6-18 with symbolic rowspan/colspan digit strings
// (rows and columns cross 1/2, 4/5 and 19/20 by arithmetic) and the
// structural menus of header elements, cell attributes, summary, cell counts
// 4/10/11 and embedded objects.
func HarnessC18Structure() {
	f := c18Feat{}
	f.nested = vx.Choose("nested", 2) == 1
	// menus are ordered so that a prefix (quick tier) keeps the most distinct members
	f.header = []int{0, 6, 2, 1, 7, 8, 5, 3, 4, 9}[vx.Choose("header", vx.Param("headers", 10))]
	f.cellAttr = []int{0, 4, 1, 2, 3}[vx.Choose("cellattr", vx.Param("cellattrs", 5))]
	f.summary = vx.Choose("summary", 2) == 1
	f.object = []int{0, 4, 1, 2, 3}[vx.Choose("object", vx.Param("objects", 5))]
	if f.nested && f.object != 0 {
		vx.Assume(false) // both use the same cell
	}
	maxDigits := vx.Param("digits", 2)
	rs := vx.NondetStringIn("rowspan", maxDigits, "0123456789")
	cs := vx.NondetStringIn("colspan", maxDigits, "0123456789")
	var cellsPerRow []int
	switch vx.Choose("size", 4) {
	case 0:
		cellsPerRow = []int{2, 2}
	case 1:
		cellsPerRow = []int{4, 3, 3}
	case 2:
		cellsPerRow = []int{4, 4, 3}
	case 3: // tall: 21 one-cell rows, then a wider row
		cellsPerRow = []int{1, 1, 1, 1, 1, 1, 1, 1, 1, 1, 1, 1, 1, 1, 1, 1, 1, 1, 1, 1, 1, 2}
		if f.nested || f.object != 0 {
			vx.Assume(false) // these features live in the second cell of the second row
		}
	}
	f.rows = c18Span(rs) + len(cellsPerRow) - 1
	if f.header == 2 || f.header == 3 || f.header == 7 {
		f.rows++ // the thead/tfoot row
	}
	if f.nested {
		f.rows++ // GetElementsByTagName counts the nested table's row too (irrelevant: nested decides first)
	}
	row0 := c18Span(cs) + cellsPerRow[0] - 1
	if f.header == 6 || f.header == 8 {
		row0-- // one cell of the first row is a <th>, which the column counter does not count
	}
	f.cols = row0
	for _, n := range cellsPerRow[1:] {
		if n > f.cols {
			f.cols = n
		}
	}
	if (f.header == 2 || f.header == 3 || f.header == 7) && f.cols < 2 {
		f.cols = 2
	}
	for _, n := range cellsPerRow {
		f.cells += n
	}
	if f.header == 6 || f.header == 8 {
		f.cells--
	}
	if f.header == 2 || f.header == 3 || f.header == 7 {
		f.cells += 2
	}
	c18Run(f, cellsPerRow, rs, cs, "structure")
}
