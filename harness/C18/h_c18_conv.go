package extractor

import (
	"strings"

	"github.com/go-shiori/dom"
	"github.com/markusmobius/go-domdistiller/internal/converter"
	"github.com/markusmobius/go-domdistiller/internal/tableclass"
	"github.com/markusmobius/go-domdistiller/internal/webdoc"
	vx "github.com/markusmobius/go-domdistiller/internal/zzverif"
)

type c18Counter struct{}

func (c18Counter) Count(s string) int { return len(strings.Fields(s)) }

// HarnessC18Converter: "preserved as a data table or flattened as layout is
// decided by these rules" -- the converter must preserve exactly the tables the
// classifier calls data (the rule cascade itself is checked by the roles and
// structure harnesses). Tables combine two features from the menu, placed at
// top level, inside a list item, or inside another table's cell.
func HarnessC18Converter() {
	attrs := []string{``, ` role="grid"`, ` role="presentation"`, ` datatable="0"`, ` summary="s"`, ` role="main"`}[vx.Choose("attr", 6)]
	inner := []string{
		`<tr><td>a</td><td>b</td></tr><tr><td>c</td><td>d</td></tr>`,
		`<thead><tr><th>h1</th><th>h2</th></tr></thead><tr><td>c</td><td>d</td></tr>`,
		`<tr><td>a</td><td><table><tr><td>n1</td><td>n2</td></tr><tr><td>n3</td><td>n4</td></tr></table></td></tr><tr><td>c</td><td>d</td></tr>`,
		`<tr role="row"><td>a</td><td><table><tr><td>n</td></tr></table></td></tr><tr><td>c</td><td>d</td></tr>`,
		`<caption>capt</caption><tr><td>a</td><td>b</td></tr><tr><td>c</td><td>d</td></tr>`,
		`<tr><td>1</td><td>2</td><td>3</td><td>4</td><td>5</td></tr><tr><td>1</td><td>2</td><td>3</td><td>4</td><td>5</td></tr>`,
		`<tr><td>only</td></tr>`,
	}[vx.Choose("inner", 7)]
	tbl := `<table id="t"` + attrs + `>` + inner + `</table>`
	place := []string{`<div><p>alpha</p>%s</div>`, `<ul><li>item %s</li></ul>`, `<div contenteditable="true">%s</div>`, `<blockquote>%s</blockquote>`}[vx.Choose("place", 4)]
	// elements the converter skips (empty, or marked as a sharing widget) that
	// say they are editable, before the table: they do not enclose it
	before := []string{"", `<div contenteditable="true"></div>`, `<div contenteditable="true" class="sharing">share</div><p contenteditable="true" hidden>x</p>`}[vx.Choose("before", 3)]
	doc := vx.ParseHTML("<html><head><title>T</title></head><body>" + before + strings.Replace(place, "%s", tbl, 1) + "</body></html>")
	t := dom.QuerySelector(doc, "table")
	want, _ := tableclass.NewClassifier(nil).Classify(t)
	b := webdoc.NewWebDocumentBuilder(c18Counter{}, nil)
	converter.NewDomConverter(converter.Default, b, nil, nil).Convert(dom.QuerySelector(doc, "html"))
	wd := b.Build()
	kept := false
	for _, e := range wd.Elements {
		if tb, ok := e.(*webdoc.Table); ok && dom.GetAttribute(tb.Element, "id") == "t" {
			kept = true
		}
	}
	if want == tableclass.Data {
		vx.Cover("data")
	} else {
		vx.Cover("layout")
	}
	vx.Assert(kept == (want == tableclass.Data), "the converter preserves/flattens a table differently from the rule cascade's verdict")
}
