package stringutil

import (
	"fmt"
	"regexp"
	"sort"
	"strings"
	"sync"
	"sync/atomic"

	vx "github.com/markusmobius/go-domdistiller/internal/zzverif"
)

type zzPoint struct{ x, y int }

func (p zzPoint) String() string { return fmt.Sprintf("(%d,%d)", p.x, p.y) }

var zzCache sync.Map
var zzPool = sync.Pool{New: func() interface{} { return &zzPoint{} }}
var zzCounter int32

// HarnessZZEnv exercises the engine's models of library leaves that the code
// under test does not use today (sync.Map, sync.Pool, atomic, strings.Replacer,
// sort.Slice, *Func helpers, Stringers in fmt); engine and native execution
// must agree on every observed value (translation validation only).
func HarnessZZEnv() {
	k := vx.Choose("k", 3)
	zzCache.Store("a", k)
	v, ok := zzCache.Load("a")
	_, ok2 := zzCache.Load("b")
	act, loaded := zzCache.LoadOrStore("b", 7)
	vx.Observe("map", v, ok, ok2, act, loaded)
	p := zzPool.Get().(*zzPoint)
	p.x = k
	zzPool.Put(p)
	q := zzPool.Get().(*zzPoint)
	vx.Observe("pool", q.x, atomic.AddInt32(&zzCounter, 2), atomic.LoadInt32(&zzCounter))
	r := strings.NewReplacer("a", "1", "b", "2")
	xs := []string{"bb", "a", "ccc"}
	sort.Slice(xs, func(i, j int) bool { return len(xs[i]) < len(xs[j]) })
	vx.Observe("str", r.Replace("abc"), strings.Join(xs, ","), strings.TrimLeftFunc("  x ", func(c rune) bool { return c == ' ' }),
		strings.FieldsFunc("a,b;c", func(c rune) bool { return c == ',' || c == ';' }), strings.Map(func(c rune) rune {
			if c == 'a' {
				return -1
			}
			return c + 1
		}, "abc"))
	vx.Observe("fmt", fmt.Sprintf("%s %v %d", zzPoint{1, k}, zzPoint{2, 3}, k), fmt.Sprint("x", 1, zzPoint{k, k}))
	re := regexp.MustCompile(`(\d+)-(\d+)`)
	vx.Observe("re", re.FindStringSubmatchIndex("ab 12-34"), re.ReplaceAllLiteralString("1-2", "$1"), re.NumSubexp(), regexp.QuoteMeta("a.b"))
	vx.Assert(ok && !ok2, "sync.Map model")
	vx.Cover("env")
}
