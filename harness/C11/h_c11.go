package distiller

import (
	nurl "net/url"
	"strings"

	"github.com/go-shiori/dom"
	vx "github.com/markusmobius/go-domdistiller/internal/zzverif"
)

func zzKey(r *Result) string {
	if r == nil {
		return "<nil>"
	}
	mi := r.MarkupInfo
	imgs := ""
	for _, im := range mi.Images {
		imgs += im.URL + "," + im.Type + ";"
	}
	return strings.Join([]string{"title=" + r.Title, "text=" + r.Text, "html=" + dom.OuterHTML(r.Node), "images=" + strings.Join(r.ContentImages, "|"),
		"url=" + r.URL, "next=" + r.PaginationInfo.NextPage, "prev=" + r.PaginationInfo.PrevPage,
		"markup=" + mi.Title + "|" + mi.Type + "|" + mi.URL + "|" + mi.Description + "|" + mi.Publisher + "|" + mi.Copyright + "|" + mi.Author + "|" + imgs,
		"article=" + mi.Article.PublishedTime + "|" + mi.Article.Section + "|" + strings.Join(mi.Article.Authors, ","),
	}, "\x00")
}

func zzDiff(a, b string) string {
	pa, pb := strings.Split(a, "\x00"), strings.Split(b, "\x00")
	for i := range pa {
		if i < len(pb) && pa[i] != pb[i] {
			return pa[i][:strings.Index(pa[i], "=")]
		}
	}
	return "?"
}

func zzOptsFor(algo int, withURL bool, urlStr string) *Options {
	o := &Options{}
	if algo == 1 {
		o.PaginationAlgo = PageNumber
	}
	if withURL {
		o.OriginalURL, _ = nurl.Parse(urlStr)
	}
	return o
}

var zzPageURLs = []string{"http://h.t/a?page=2", "http://h.t/story/2", "http://h.t/plain/", "http://h.t/list?cat=2&page=2", "http://h.t/archive?page=2", "http://h.t/x/2"}

// HarnessC11Orders: Apply on the same bytes under different map-iteration
// orders (insertion order, reversed, rotated) gives identical results. The
// engine's maps iterate in a fixed, selectable order; natively (replay) the
// call is repeated under the Go runtime's randomisation.
func HarnessC11Orders() {
	pi := vx.Choose("page", len(vx.Pages))
	page := vx.Pages[pi]
	algo := vx.Choose("algo", 2)
	withURL := vx.Choose("url", 2) == 1
	ref, _ := Apply(vx.ParseHTML(page), zzOptsFor(algo, withURL, zzPageURLs[pi]))
	k0 := zzKey(ref)
	if vx.Symbolic() {
		for _, mode := range []int{1, 3} {
			vx.MapOrder(mode)
			r, _ := Apply(vx.ParseHTML(page), zzOptsFor(algo, withURL, zzPageURLs[pi]))
			vx.MapOrder(0)
			k := zzKey(r)
			vx.Assert(k == k0, "result depends on map iteration order")
			vx.Cover("orders")
		}
	} else {
		for i := 0; i < 40; i++ {
			r, _ := Apply(vx.ParseHTML(page), zzOptsFor(algo, withURL, zzPageURLs[pi]))
			k := zzKey(r)
			vx.Assert(k == k0, "result depends on map iteration order")
			if k != k0 {
				break
			}
		}
	}
}

// HarnessC11History: the result for a page does not depend on which pages were
// distilled earlier in the same process, and ApplyForReader / ApplyForFile
// agree with Apply on the parsed tree.
func HarnessC11History() {
	pi := vx.Choose("page", len(vx.Pages))
	page := vx.Pages[pi]
	algo := vx.Choose("algo", 2)
	first, _ := Apply(vx.ParseHTML(page), zzOptsFor(algo, true, zzPageURLs[pi]))
	k0 := zzKey(first)
	// an arbitrary earlier call sequence of one or two calls: other pages, or
	// the same page under a sibling URL (other scheme, other query)
	earlier := func(name string) {
		o := vx.Choose(name, len(vx.Pages)+2)
		switch {
		case o < len(vx.Pages):
			Apply(vx.ParseHTML(vx.Pages[o]), zzOptsFor(vx.Choose(name+"algo", 2), true, zzPageURLs[o]))
		case o == len(vx.Pages):
			Apply(vx.ParseHTML(page), zzOptsFor(algo, true, strings.Replace(zzPageURLs[pi], "http://", "https://", 1)))
		default:
			Apply(vx.ParseHTML(page), zzOptsFor(1-algo, false, ""))
		}
	}
	earlier("other1")
	if vx.Choose("two", 2) == 1 {
		earlier("other2")
	}
	again, _ := Apply(vx.ParseHTML(page), zzOptsFor(algo, true, zzPageURLs[pi]))
	vx.Assert(zzKey(again) == k0, "result differs after other pages were distilled in the same process: "+zzDiff(zzKey(again), k0))
	// repeated runs with the SAME Options value
	shared := zzOptsFor(algo, true, zzPageURLs[pi])
	s1, _ := Apply(vx.ParseHTML(page), shared)
	s2, _ := Apply(vx.ParseHTML(page), shared)
	vx.Assert(zzKey(s1) == k0 && zzKey(s2) == k0, "repeated runs with the same Options value differ: "+zzDiff(zzKey(s2), k0))
	viaReader, err := ApplyForReader(strings.NewReader(page), zzOptsFor(algo, true, zzPageURLs[pi]))
	vx.Assert(err == nil && zzKey(viaReader) == k0, "ApplyForReader differs from Apply on the parsed tree: "+zzDiff(zzKey(viaReader), k0))
	path, done := vx.TempFile(page)
	viaFile, err := ApplyForFile(path, zzOptsFor(algo, true, zzPageURLs[pi]))
	done()
	vx.Assert(err == nil && zzKey(viaFile) == k0, "ApplyForFile differs from Apply on the parsed tree: "+zzDiff(zzKey(viaFile), k0))
	vx.Cover("history")
}

// HarnessC11EntryPoints: the byte-stream entry points give the result of Apply
// on dom.Parse of the same bytes, also for bytes where parsing does more than
// html.Parse does (decomposed accents, soft hyphens, non-ASCII scripts, a
// charset declaration).
func HarnessC11EntryPoints() {
	long := "plenty of plain words make this paragraph long enough to be kept as content of the page by the classifier, and a few more words follow here. "
	body := []string{
		"café résumé Ångström " + long,
		"hy­phen­ated soft­hyphen " + long,
		"한국어 단어 몇 개 " + long + " 中文文字",
		"plain ascii only " + long,
	}[vx.Choose("body", 4)]
	head := []string{"<title>Títle wo­rds of the page</title>", `<meta charset="utf-8"><title>Title words of the page</title>`, `<meta http-equiv="Content-Type" content="text/html; charset=iso-8859-1"><title>Title words</title>`}[vx.Choose("head", 3)]
	page := "<html><head>" + head + "</head><body><div><p>" + body + `</p><img src="i.png" alt="ált"><p>` + body + "</p></div></body></html>"
	algo := vx.Choose("algo", 2)
	parsed, err := dom.Parse(strings.NewReader(page))
	vx.Assert(err == nil && parsed != nil, "dom.Parse failed")
	if parsed == nil {
		return
	}
	ref, _ := Apply(parsed, zzOptsFor(algo, true, "http://h.t/story/2"))
	k0 := zzKey(ref)
	viaReader, err := ApplyForReader(strings.NewReader(page), zzOptsFor(algo, true, "http://h.t/story/2"))
	vx.Assert(err == nil && zzKey(viaReader) == k0, "ApplyForReader differs from Apply on dom.Parse of the same bytes: "+zzDiff(zzKey(viaReader), k0))
	path, done := vx.TempFile(page)
	viaFile, err := ApplyForFile(path, zzOptsFor(algo, true, "http://h.t/story/2"))
	done()
	vx.Assert(err == nil && zzKey(viaFile) == k0, "ApplyForFile differs from Apply on dom.Parse of the same bytes: "+zzDiff(zzKey(viaFile), k0))
	vx.Cover("entrypoints")
}
