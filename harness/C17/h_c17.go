package pagination

import (
	nurl "net/url"
	"strconv"
	"strings"

	"github.com/markusmobius/go-domdistiller/internal/stringutil"
	vx "github.com/markusmobius/go-domdistiller/internal/zzverif"
)

// c17Same compares two URLs up to the implementation's normalisation choices
// (fragment dropped, trailing slashes of the path dropped).
func c17Same(a, b string) bool {
	if a == "" || b == "" {
		return a == b
	}
	canon := func(s string) string {
		u, err := nurl.Parse(s)
		if err != nil {
			return s
		}
		u.Fragment, u.RawFragment = "", ""
		for strings.HasSuffix(u.Path, "/") {
			u.Path = strings.TrimSuffix(u.Path, "/")
		}
		u.RawPath = ""
		return u.String()
	}
	return canon(a) == canon(b)
}

type c17Words struct{}

func (c17Words) Count(s string) int { return len(strings.Fields(s)) }

func c17URL(family, i int) string {
	n := strconv.Itoa(i)
	switch family {
	case 0:
		return "http://h.t/article?page=" + n
	case 1:
		return "http://h.t/story/page/" + n
	case 2:
		return "http://h.t/news/story-" + n + ".html"
	case 3:
		return "http://h.t/list?cat=7&p=" + n
	case 4:
		return "http://h.t/story/?page=" + n
	case 5:
		return "http://h.t/blog/article-" + n + ".html"
	case 6:
		return "http://h.t/story/page/" + n + "/"
	case 7: // page number under a date permalink
		return "http://h.t/2015/06/my-story/" + n
	}
	return ""
}

// c17N chooses the pager size: every N up to maxN, plus the two-digit sizes 10
// and 12 when maxN is smaller (so the quick tier reaches two-digit labels).
func c17N(maxN int) int {
	if maxN >= 12 {
		return 2 + vx.Choose("N", maxN-1)
	}
	n := vx.Choose("N", maxN+1)
	if n == maxN-1 {
		return 10
	}
	if n == maxN {
		return 12
	}
	return 2 + n
}

// HarnessC17PageNumber: the conventional numbered pager 1..N with the current
// page k as plain text, every N in 2..max, every k, URL families (query
// parameter, path component, file-name suffix, second query parameter) and
// markups (separators, wrappers, decorations of the current page): NextPage is
// exactly the link of page k+1 (empty for k = N), PrevPage the link of k-1
// (empty for k = 1).
func HarnessC17PageNumber() {
	maxN := vx.Param("maxn", 12)
	N := c17N(maxN)
	k := 1 + vx.Choose("k", N)
	family := vx.Choose("family", vx.Param("families", 7))
	deco := vx.Choose("linkdeco", 5) // decoration of the link labels: 7, [7], (7), [ 7 ], ( 7 )
	desc := vx.Choose("descending", 2) == 1
	sep := []string{" ", " | ", "", "\n"}[vx.Choose("sep", vx.Param("seps", 4))]
	wrap := vx.Choose("wrap", vx.Param("wraps", 4)) // none, list items, table cells followed by a text that starts with a number, spans
	cur := 0
	if deco == 0 {
		cur = vx.Choose("cur", 4)
	}
	var sb strings.Builder
	for pos := 1; pos <= N; pos++ {
		i := pos
		if desc {
			i = N + 1 - pos
		}
		label := strconv.Itoa(i)
		var item string
		if i == k {
			item = []string{label, "<span class=\"current\">" + label + "</span>", "<b>" + label + "</b>", "<strong>[" + label + "]</strong>"}[cur]
		} else {
			item = `<a href="` + c17URL(family, i) + `">` + []string{label, "[" + label + "]", "(" + label + ")", "[ " + label + " ]", "( " + label + " )"}[deco] + `</a>`
		}
		switch wrap {
		case 1:
			item = "<li>" + item + "</li>"
		case 2:
			item = "<td>" + item + "</td>"
		case 3:
			item = "<span>" + item + "</span>"
		}
		if pos > 1 {
			sb.WriteString(sep)
		}
		sb.WriteString(item)
	}
	pager := sb.String()
	if wrap == 1 {
		pager = "<ul>" + pager + "</ul>"
	}
	if wrap == 2 {
		pager = "<table><tbody><tr>" + pager + "</tr></tbody></table> 37 comments"
	}
	doc := vx.ParseHTML(`<html><body><div><p>Some words of the article are here.</p></div><div class="pagination">` + pager + `</div></body></html>`)
	pageURL, _ := nurl.Parse(c17URL(family, k))
	info := NewPageNumberFinder(stringutil.SelectWordCounter("plain english text"), nil, nil).FindPagination(doc, pageURL)
	wantNext, wantPrev := "", ""
	if k < N {
		wantNext = c17URL(family, k+1)
	}
	if k > 1 {
		wantPrev = c17URL(family, k-1)
	}
	vx.Cover("pager")
	vx.Assert(c17Same(info.NextPage, wantNext), "page-number algorithm: NextPage is not the link of page k+1")
	vx.Assert(c17Same(info.PrevPage, wantPrev), "page-number algorithm: PrevPage is not the link of page k-1")
}

// HarnessC17PrevNext: anchors labelled Next / Prev / Previous pointing to page
// k+1 / k-1 of the pattern are returned by the prev/next algorithm.
func HarnessC17PrevNext() {
	maxN := vx.Param("maxn", 12)
	N := c17N(maxN)
	k := 1 + vx.Choose("k", N)
	family := vx.Choose("family", vx.Param("families", 7))
	acls := []string{"", ` class="post-page-numbers"`, ` class="next page-numbers"`, ` id="nav-link"`}[vx.Choose("anchorclass", 4)]
	if strings.Contains(acls, "post-page-numbers") && family == 5 {
		acls = "" // a penalised class on top of a penalised slug is not a conventional pager
	}
	// WordPress marks its pager anchors with a class that contains a word the
	// heuristics penalise; such pagers are conventional only inside a container
	// that identifies itself as pagination
	forcePagination := strings.Contains(acls, "post-page-numbers")
	nextLabel := []string{"Next", "next page", "Next »"}[vx.Choose("nextlabel", 3)]
	prevLabel := []string{"Prev", "Previous", "« previous page"}[vx.Choose("prevlabel", 3)]
	pager := ""
	if k > 1 {
		pager += `<a href="` + c17URL(family, k-1) + `"` + strings.Replace(acls, "next ", "prev ", 1) + `>` + prevLabel + `</a> `
	}
	if vx.Choose("numbers", 2) == 1 {
		for i := 1; i <= N; i++ {
			if i == k {
				pager += strconv.Itoa(i) + " "
			} else {
				pager += `<a href="` + c17URL(family, i) + `">` + strconv.Itoa(i) + `</a> `
			}
		}
	}
	if k < N {
		pager += `<a href="` + c17URL(family, k+1) + `"` + acls + `>` + nextLabel + `</a>`
	}
	cls := []string{"pagination", "links"}[vx.Choose("divclass", 2)]
	if forcePagination {
		cls = "pagination"
	}
	doc := vx.ParseHTML(`<html><body><div><p>Some words of the article are here.</p></div><div class="` + cls + `">` + pager + `</div></body></html>`)
	pageURL, _ := nurl.Parse(c17URL(family, k))
	info := NewPrevNextFinder(nil).FindPagination(doc, pageURL)
	vx.Cover("prevnext")
	if k < N {
		vx.Assert(c17Same(info.NextPage, c17URL(family, k+1)), "prev/next algorithm: the anchor labelled Next pointing to page k+1 is not returned as NextPage")
	}
	if k > 1 {
		vx.Assert(c17Same(info.PrevPage, c17URL(family, k-1)), "prev/next algorithm: the anchor labelled Prev pointing to page k-1 is not returned as PrevPage")
	}
}
