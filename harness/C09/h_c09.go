package extractor

import (
	"strings"

	"github.com/go-shiori/dom"
	"github.com/markusmobius/go-domdistiller/internal/converter"
	"github.com/markusmobius/go-domdistiller/internal/domutil"
	"github.com/markusmobius/go-domdistiller/internal/stringutil"
	"github.com/markusmobius/go-domdistiller/internal/webdoc"
	vx "github.com/markusmobius/go-domdistiller/internal/zzverif"
	"golang.org/x/net/html"
)

// blocks of every element kind; all words are plain tokens
var c09Blocks = []string{
	`<p>alpha beta <b>gamma</b> <a href="/l">delta</a></p>`,
	`<h2>heading words</h2>`,
	`<ul><li>item one</li><li>item <i>two</i></li></ul>`,
	`<blockquote>quoted words <span>here</span></blockquote>`,
	`<pre>pre  text
  lines</pre>`,
	`<img src="i1.png" alt="alt words">`,
	`<img src="i2.png" srcset="s1.png 1x, s2.png 2x">`,
	`<figure><img src="f.png"><figcaption>capt words <a href="/c">linked</a></figcaption></figure>`,
	`<figure><picture><source srcset="ps.png 2x"><img src="pi.png"></picture><figcaption>plain caption</figcaption></figure>`,
	`<table><thead><tr><th>head one</th><th>head two</th></tr></thead><tbody><tr><td>cell one <span style="display:none">hid den</span></td><td><img src="t.png"> cell two</td></tr></tbody></table>`,
	`<video src="v.mp4"><source src="v2.mp4">fallback words</video>`,
	`<iframe src="https://www.youtube.com/embed/abc"></iframe>`,
	`<p>line one<br>line two</p>`,
	`<img src="" srcset="">`,
	`<img src="i3.png" srcset="/w_300,h_200/x.jpg 1x, /w_600,h_400/x.jpg 2x">`,
	`<table><tr><td>cellx</td><td>celly</td></tr><tr><td><p>cellp</p></td><td>cellq</td></tr></table>`,
	`<p>H<sub>2</sub>O is w<b>at</b>er, <span>D</span>rop cap</p>`,
	`<img src="https://c.t/fotos/münchen-straße.jpg" srcset="https://c.t/f/größe.jpg 2x"><img src="/rel/ä b.png">`,
	// fractional density and width descriptors (round k)
	`<img src="i4.png" srcset="f1.png 1.5x, f2.png 2.25x, f3.png 640w"><picture><source srcset="pf.png 0.5x"><img src="pj.png"></picture>`,
}

// c09Srcset is the harness's own reading of a srcset attribute (the library's
// parser is the code under test): white-space separated tokens, a token that is
// a width/density descriptor is skipped, a trailing comma ends a candidate.
func c09Srcset(v string) []string {
	var out []string
	for _, f := range strings.Fields(v) {
		f = strings.TrimSuffix(f, ",")
		if f == "" {
			continue
		}
		last := f[len(f)-1]
		isDesc := (last == 'x' || last == 'w') && len(f) > 1
		for _, c := range f[:len(f)-1] {
			if !(c >= '0' && c <= '9') && c != '.' {
				isDesc = false
			}
		}
		if !isDesc {
			out = append(out, f)
		}
	}
	return out
}

type c09Counter struct{}

func (c09Counter) Count(s string) int { return len(strings.Fields(s)) }

func c09Imgs(n *html.Node, into *[]string) {
	if n.Type == html.ElementNode && (n.Data == "img" || n.Data == "source") {
		if src := dom.GetAttribute(n, "src"); src != "" {
			*into = append(*into, src)
		}
		*into = append(*into, c09Srcset(dom.GetAttribute(n, "srcset"))...)
	}
	for c := n.FirstChild; c != nil; c = c.NextSibling {
		c09Imgs(c, into)
	}
}

// HarnessC09Views: n blocks of every element kind, arbitrary content flags;
// the word sequence of the text view equals the word sequence of the visible
// text of the HTML view, and ContentImages equals the src / srcset candidates
// of the img and source elements of the HTML view, in document order
// (subsequence).
func HarnessC09Views() {
	n := vx.Param("n", 2)
	body := ""
	for i := 0; i < n; i++ {
		body += c09Blocks[vx.Choose("block", len(c09Blocks))] + "\n"
	}
	doc := vx.ParseHTML("<html><head><title>T</title></head><body><div>" + body + "</div></body></html>")
	b := webdoc.NewWebDocumentBuilder(c09Counter{}, nil)
	converter.NewDomConverter(converter.Default, b, nil, nil).Convert(dom.QuerySelector(doc, "html"))
	wd := b.Build()
	for _, e := range wd.Elements {
		if _, isTag := e.(*webdoc.Tag); isTag {
			e.SetIsContent(true)
		} else {
			e.SetIsContent(vx.NondetBool("content"))
		}
	}
	text := wd.GenerateOutput(true)
	htm := wd.GenerateOutput(false)
	od := vx.ParseHTML("<html><body>" + htm + "</body></html>")
	bodyN := dom.QuerySelector(od, "body")
	visible := domutil.InnerText(bodyN)
	tw, hw := strings.Join(strings.Fields(text), " "), strings.Join(strings.Fields(visible), " ")
	vx.Assert(tw == hw, "word sequence of the distilled text differs from the visible text of the distilled HTML")
	if tw != "" {
		vx.Cover("words")
	}
	var imgs []string
	c09Imgs(bodyN, &imgs)
	got := wd.GetImageURLs()
	// statement: every entry IS such a URL, in document order (a subsequence;
	// it does not demand that every image URL of the HTML is listed)
	k := 0
	for _, g := range got {
		for k < len(imgs) && imgs[k] != g {
			k++
		}
		vx.Assert(k < len(imgs), "a ContentImages entry is not the src/srcset candidate of an image element of the distilled HTML, in document order")
		k++
	}
	if len(got) > 0 {
		vx.Cover("images")
	}
}

type c09Sym struct {
	memo map[string]int
	max  int
}

func (c *c09Sym) Count(s string) int {
	if n, ok := c.memo[s]; ok {
		return n
	}
	n := 0
	if strings.TrimSpace(s) != "" {
		n = vx.NondetInt("wc", 1, c.max)
	}
	c.memo[s] = n
	return n
}

// HarnessC09WordCount: pages of text blocks only (no title); arbitrary word
// counts per text node. WordCount equals the sum of the counts of exactly the
// text nodes that are in the distilled text -- also on the fallback path
// (under 500 words with a subtree marked as unlikely content).
func HarnessC09WordCount() {
	toks := []string{"qalpha", "qbeta", "qgamma", "qdelta"}
	var blocks string
	n := vx.Param("n", 3)
	for i := 0; i < n; i++ {
		switch vx.Choose("kind", 6) {
		case 0:
			blocks += "<p>" + toks[i] + "</p>"
		case 1:
			blocks += "<div class=\"community-post\"><p>" + toks[i] + "</p></div>"
		case 2:
			blocks += "<ul><li>" + toks[i] + "</li></ul>"
		case 3:
			blocks += "<div role=\"navigation\">" + toks[i] + "</div>"
		case 4: // conflicting visibility signals
			blocks += "<p hidden style=\"display:block\">" + toks[i] + "</p>"
		case 5:
			blocks += "<p style=\"display:block\" aria-hidden=\"true\">" + toks[i] + "</p>"
		}
	}
	doc := vx.ParseHTML("<html><head></head><body><div>" + blocks + "</div></body></html>")
	ce := NewContentExtractor(dom.QuerySelector(doc, "html"), nil, nil)
	c := &c09Sym{memo: map[string]int{}, max: vx.Param("maxwc", 400)}
	ce.WordCounter = c
	wd, wc := ce.ExtractContent()
	text := " " + strings.Join(strings.Fields(wd.GenerateOutput(true)), " ") + " "
	sum := 0
	for i := 0; i < n; i++ {
		if strings.Contains(text, " "+toks[i]+" ") {
			sum += c.memo[toks[i]]
			vx.Cover("kept")
		}
	}
	vx.Assert(wc == sum, "WordCount is not the number of words in the distilled text")
}

// HarnessC09Counters: WordCount against the words of the distilled text for
// pages in several scripts and with several lang declarations. The extractor
// chooses its own word counter here (nothing is stubbed); the reference counts
// the distilled text with the counter that the scripts present in the page
// call for, whatever the markup declares.
func HarnessC09Counters() {
	lang := []string{"", ` lang="en"`, ` lang="ko"`, ` lang="zh-CN"`, ` lang="EN-us" xml:lang="en"`}[vx.Choose("lang", 5)]
	latin := "plenty of plain words make this paragraph long enough to be kept as content of the page by the classifier, and a few more words follow here. "
	body := []string{
		latin + latin,
		latin + "한국어 단어 몇 개가 여기에 있습니다 그리고 더 많은 단어들 " + latin,
		latin + "这是一些中文文字用来测试字数统计的功能是否正确 " + latin,
		"한국어 단어 몇 개가 여기에 있습니다 그리고 더 많은 단어들이 이 문단에 충분히 들어 있습니다 " + latin + "日本語のテキストもここにあります ",
	}[vx.Choose("script", 4)]
	page := "<html" + lang + "><head></head><body><div><p>" + body + "</p><p>" + body + "</p></div></body></html>"
	doc := vx.ParseHTML(page)
	root := dom.QuerySelector(doc, "html")
	ref := stringutil.SelectWordCounter(dom.TextContent(root))
	ce := NewContentExtractor(root, nil, nil)
	wd, wc := ce.ExtractContent()
	text := wd.GenerateOutput(true)
	if strings.TrimSpace(text) != "" {
		vx.Cover("kept")
	}
	vx.Assert(wc == ref.Count(text), "WordCount is not the number of words in the distilled text (counted as the scripts of the page require)")
}
