package distiller

import (
	nurl "net/url"
	"strings"

	"github.com/go-shiori/dom"
	vx "github.com/markusmobius/go-domdistiller/internal/zzverif"
	"golang.org/x/net/html"
)

func zzSame(a, b *Result, what string) {
	vx.Assert(a.Title == b.Title, what+": Title differs")
	vx.Assert(a.Text == b.Text, what+": Text differs")
	vx.Assert(dom.OuterHTML(a.Node) == dom.OuterHTML(b.Node), what+": distilled HTML differs")
	vx.Assert(a.WordCount == b.WordCount, what+": WordCount differs")
	vx.Assert(strings.Join(a.ContentImages, "|") == strings.Join(b.ContentImages, "|"), what+": ContentImages differ")
	vx.Assert(a.MarkupInfo.Title == b.MarkupInfo.Title && a.MarkupInfo.URL == b.MarkupInfo.URL && a.MarkupInfo.Type == b.MarkupInfo.Type &&
		a.MarkupInfo.Description == b.MarkupInfo.Description && len(a.MarkupInfo.Images) == len(b.MarkupInfo.Images), what+": MarkupInfo differs")
	vx.Assert(a.URL == b.URL, what+": URL differs")
}

// HarnessC13Options: Apply under a reference option set and under an arbitrary
// one (every LogFlags value 0..31, SkipPagination, both algorithms, URL nil or
// not) on the same page. Log flags change nothing; algorithm and skip affect
// only PaginationInfo, which is empty when skipped or without URL; Result.URL
// is the supplied URL.
func HarnessC13Options() {
	pi := vx.Choose("page", len(vx.Pages))
	page := vx.Pages[pi]
	withURL := vx.Choose("url", 2) == 1
	// the page's own URL (its pager is built for it), a directory URL, and a URL
	// whose path has percent-encoded and non-ASCII characters
	own := []string{"http://h.t/a?page=2", "http://h.t/story/2", "http://h.t/plain/", "http://h.t/list?cat=2&page=2", "http://h.t/archive?page=2", "http://h.t/x/2"}[pi]
	// (round k) a URL with userinfo, and one whose escaped path is not canonical
	urlStr := []string{own, "http://h.t/dir/", "http://h.t/caf%C3%A9/a%20b/2", "http://user:pw@h.t/story/2", "http://h.t/a%2Fb/caf%c3%a9/2"}[vx.Choose("urlform", 5)]
	mk := func() *Options {
		o := &Options{}
		if withURL {
			o.OriginalURL, _ = nurl.Parse(urlStr)
		}
		return o
	}
	ref := mk()
	opts := mk()
	if vx.Param("allflags", 1) == 1 {
		opts.LogFlags = LogFlag(vx.NondetInt("flags", 0, 31))
	} else {
		opts.LogFlags = []LogFlag{0, LogExtraction, LogVisibility, LogPagination, LogTiming, LogEverything}[vx.Choose("flagset", 6)]
	}
	opts.SkipPagination = vx.NondetBool("skip")
	if vx.NondetBool("algo") {
		opts.PaginationAlgo = PageNumber
	}
	skip, algo := opts.SkipPagination, opts.PaginationAlgo
	// the root handed to Apply: the document, or (if the page has one) a table element
	rootOf := func() *html.Node {
		d := vx.ParseHTML(page)
		return d
	}
	if vx.Choose("root", 2) == 1 {
		rootOf = func() *html.Node {
			d := vx.ParseHTML(page)
			if t := dom.QuerySelector(d, "table"); t != nil {
				return t
			}
			return d
		}
	}
	r0, e0 := Apply(rootOf(), ref)
	r1, e1 := Apply(rootOf(), opts)
	vx.Assert(e0 == nil && e1 == nil && r0 != nil && r1 != nil, "Apply failed")
	if r0 == nil || r1 == nil {
		return
	}
	zzSame(r0, r1, "options")
	want := ""
	if withURL {
		want = urlStr
	}
	vx.Assert(r1.URL == want, "Result.URL is not the supplied page URL")
	// the same Options value used again: still the supplied URL, same result
	r1b, _ := Apply(rootOf(), opts)
	vx.Assert(r1b != nil && r1b.URL == want, "Result.URL is not the supplied page URL when the Options value is used a second time")
	if r1b != nil {
		zzSame(r1, r1b, "same options, second call")
	}
	if skip || !withURL {
		vx.Cover("no-pagination")
		vx.Assert(r1.PaginationInfo.NextPage == "" && r1.PaginationInfo.PrevPage == "", "PaginationInfo not empty although pagination is skipped or no URL was given")
	} else {
		vx.Cover("pagination")
		// same algorithm, different log flags: PaginationInfo must agree too
		o2 := mk()
		o2.PaginationAlgo = algo
		r2, _ := Apply(rootOf(), o2)
		vx.Assert(r2 != nil && r2.PaginationInfo.NextPage == r1.PaginationInfo.NextPage && r2.PaginationInfo.PrevPage == r1.PaginationInfo.PrevPage,
			"log flags change PaginationInfo")
		if r1.PaginationInfo.NextPage != "" {
			vx.Cover("next-found")
		}
	}
}

// HarnessC13PagerText: a pager anchor whose label is split over lines with
// <br> and has every length around the heuristics' length thresholds; log
// flags (none, pagination only, everything) must not change PaginationInfo.
func HarnessC13PagerText() {
	fill := vx.Choose("fill", vx.Param("fill", 30))
	brs := []string{" ", "<br>", "<br><br>", "<br> <br>"}[vx.Choose("brs", 4)]
	label := []string{"Next", "next page", "Older posts", "Prev"}[vx.Choose("label", 4)]
	page := `<html><head><title>Story</title></head><body><div><p>Some words of the story are here, enough of them to look like a paragraph of text.</p>
<p><a href="/story/1">Previous</a> <a href="/story/3">` + label + brs + strings.Repeat("x", fill%7) + " " + strings.Repeat("y", fill) + `</a></p></div></body></html>`
	u, _ := nurl.Parse("http://h.t/story/2")
	algo := PrevNext
	if vx.Choose("algo", 2) == 1 {
		algo = PageNumber
	}
	r0, _ := Apply(vx.ParseHTML(page), &Options{OriginalURL: u, PaginationAlgo: algo})
	fl := []LogFlag{LogPagination, LogEverything, LogExtraction | LogVisibility}[vx.Choose("flags", 3)]
	u2, _ := nurl.Parse("http://h.t/story/2")
	r1, _ := Apply(vx.ParseHTML(page), &Options{OriginalURL: u2, PaginationAlgo: algo, LogFlags: fl})
	vx.Assert(r0 != nil && r1 != nil, "Apply failed")
	if r0 == nil || r1 == nil {
		return
	}
	zzSame(r0, r1, "pager text")
	vx.Assert(r0.PaginationInfo.NextPage == r1.PaginationInfo.NextPage && r0.PaginationInfo.PrevPage == r1.PaginationInfo.PrevPage, "log flags change PaginationInfo")
	if r0.PaginationInfo.NextPage != "" {
		vx.Cover("next-found")
	} else {
		vx.Cover("next-empty")
	}
}

// HarnessC13PagerNest: prev/next anchors under zero to two wrappers whose class
// names are positive, negative or neutral for the link scorer, with and without
// a class on the anchor itself, so that scores land on both sides of the
// acceptance threshold; log flags must not change PaginationInfo.
func HarnessC13PagerNest() {
	names := []string{"", "pagination", "footer", "related", "comment", "body-and-footer"}
	outer := names[vx.Choose("outer", len(names))]
	inner := names[vx.Choose("inner", len(names))]
	acls := []string{"", ` class="next"`, ` rel="next"`}[vx.Choose("acls", 3)]
	label := []string{"Next", "next page", "Older", "3"}[vx.Choose("label", 4)]
	wrap := func(cls, body string) string {
		if cls == "" {
			return body
		}
		return `<div class="` + cls + `">` + body + `</div>`
	}
	pager := wrap(outer, wrap(inner, `<a class="prev" href="/story/1">Prev</a> <a`+acls+` href="/story/3">`+label+`</a>`))
	page := `<html><head><title>Story</title></head><body><div id="main"><p>Some words of the story are here, enough of them to look like a paragraph of text, and a few more to be safe.</p></div>` + pager + `</body></html>`
	u, _ := nurl.Parse("http://h.t/story/2")
	r0, _ := Apply(vx.ParseHTML(page), &Options{OriginalURL: u})
	fl := []LogFlag{LogPagination, LogEverything, LogExtraction | LogVisibility | LogTiming}[vx.Choose("flags", 3)]
	u2, _ := nurl.Parse("http://h.t/story/2")
	r1, _ := Apply(vx.ParseHTML(page), &Options{OriginalURL: u2, LogFlags: fl})
	vx.Assert(r0 != nil && r1 != nil, "Apply failed")
	if r0 == nil || r1 == nil {
		return
	}
	zzSame(r0, r1, "pager nest")
	vx.Assert(r0.PaginationInfo.NextPage == r1.PaginationInfo.NextPage && r0.PaginationInfo.PrevPage == r1.PaginationInfo.PrevPage, "log flags change PaginationInfo")
	if r0.PaginationInfo.NextPage != "" {
		vx.Cover("next-found")
	} else {
		vx.Cover("next-empty")
	}
}

// HarnessC13PhotoStory: a page with a site logo and k equally ranked photos in
// front of the article text (k around the sizes where library sorts change
// algorithm); log flags must not change which image is promoted, nor anything
// else of the result.
func HarnessC13PhotoStory() {
	k := []int{1, 3, 12, 13, 14, 20, 33}[vx.Choose("photos", 7)]
	var sb strings.Builder
	sb.WriteString(`<html><head><title>Harbour festival in pictures</title></head><body><div id="top"><div><a href="/"><img src="/static/site-logo.png" alt="Logo"></a></div></div><div id="page"><div id="story"><div>`)
	for i := 1; i <= k; i++ {
		sb.WriteString(`<img src="/photos/h-` + string(rune('a'+i/10)) + string(rune('0'+i%10)) + `.jpg" alt="photo">`)
	}
	for i := 0; i < 5; i++ {
		sb.WriteString(`<p>The harbour festival opened on Saturday morning with a parade of old sailing ships, and thousands of visitors walked along the quay to see the crews at work, said the organisers of the event.</p>`)
	}
	sb.WriteString(`</div></div></div></body></html>`)
	page := sb.String()
	r0, _ := Apply(vx.ParseHTML(page), &Options{})
	fl := []LogFlag{LogVisibility, LogEverything, LogExtraction | LogTiming, LogVisibility | LogPagination}[vx.Choose("flags", 4)]
	r1, _ := Apply(vx.ParseHTML(page), &Options{LogFlags: fl})
	vx.Assert(r0 != nil && r1 != nil, "Apply failed")
	if r0 == nil || r1 == nil {
		return
	}
	zzSame(r0, r1, "photo story")
	if len(r0.ContentImages) > 0 {
		vx.Cover("image")
	}
}
