package domutil

import (
	"strings"

	"github.com/go-shiori/dom"
	vx "github.com/markusmobius/go-domdistiller/internal/zzverif"
)

// HarnessC04Visible: partial specification of IsProbablyVisible read off the
// statement. MUST hide: hidden attribute; aria-hidden=true; inline
// display:none and visibility:hidden|collapse in their conventional spellings
// (property name in any letter case, optional white space after the colon,
// optional !important, optional trailing semicolon, after arbitrary other
// declarations). MUST show: no hiding attribute and a style that names neither
// property. Silent on everything else (e.g. display:NONE).
func HarnessC04Visible() {
	n := dom.CreateElement([]string{"div", "span", "p", "td", "li"}[vx.Choose("tag", 5)])
	switch vx.Choose("form", 5) {
	case 0: // hiding style
		pre := vx.NondetStringIn("pre", vx.Param("pre", 4), "ac:; -")
		vx.Assume(pre == "" || strings.HasSuffix(pre, ";") || strings.HasSuffix(pre, "; "))
		propMenu := []string{"display", "DISPLAY", "Display", "visibility", "VISIBILITY", "Visibility"}
		pi := vx.Choose("prop", len(propMenu))
		ws := vx.NondetStringIn("ws", 2, " \t")
		val := "none"
		if pi >= 3 {
			val = []string{"hidden", "collapse"}[vx.Choose("val", 2)]
		}
		suffix := []string{"", ";", " ;", " !important", "!important;", " !important ; color:blue", "; color:blue", " "}[vx.Choose("suffix", 8)]
		dom.SetAttribute(n, "style", pre+propMenu[pi]+":"+ws+val+suffix)
		vx.Cover("style-hidden")
		vx.Assert(!IsProbablyVisible(n), "element hidden by inline "+strings.ToLower(propMenu[pi])+":"+val+" (suffix '"+suffix+"') is treated as visible")
	case 1:
		dom.SetAttribute(n, "hidden", []string{"", "hidden", "true"}[vx.Choose("hv", 3)])
		if vx.Choose("alsoStyle", 2) == 1 {
			dom.SetAttribute(n, "style", vx.NondetStringIn("style", 4, "ac:; "))
		}
		vx.Cover("attr-hidden")
		vx.Assert(!IsProbablyVisible(n), "element with the hidden attribute is treated as visible")
	case 2:
		dom.SetAttribute(n, "aria-hidden", "true")
		cls := vx.NondetStringIn("class", vx.Param("class", 4), "abf-g ")
		dom.SetAttribute(n, "class", cls)
		vx.Assume(!strings.Contains(cls, "fallback-image"))
		vx.Cover("aria-hidden")
		vx.Assert(!IsProbablyVisible(n), "element with aria-hidden=true is treated as visible")
	case 3: // harmless style
		st := vx.NondetStringIn("style", vx.Param("style", 5), "acor:; -1")
		dom.SetAttribute(n, "style", st)
		if vx.Choose("ariaFalse", 2) == 1 {
			dom.SetAttribute(n, "aria-hidden", "false")
		}
		vx.Cover("shown")
		vx.Assert(IsProbablyVisible(n), "element without any hiding attribute or declaration is treated as hidden")
	case 4: // visible display values
		v := []string{"block", "inline", "inline-block", "flex"}[vx.Choose("dv", 4)]
		dom.SetAttribute(n, "style", "display:"+vx.NondetStringIn("ws", 1, " ")+v+[]string{"", ";"}[vx.Choose("semi", 2)])
		vx.Cover("shown")
		vx.Assert(IsProbablyVisible(n), "display:"+v+" is treated as hidden")
	}
}
