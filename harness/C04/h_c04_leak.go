package extractor

import (
	"strings"

	"github.com/go-shiori/dom"
	"github.com/markusmobius/go-domdistiller/internal/converter"
	"github.com/markusmobius/go-domdistiller/internal/webdoc"
	vx "github.com/markusmobius/go-domdistiller/internal/zzverif"
)

// list 1: never rendered. %w is the unique token.
var c04Hidden = []string{
	"<script>var %w = 1;</script>",
	"<style>.%w{color:red}</style>",
	"<!-- %w -->",
	"<span hidden>%w</span>",
	`<div style="display:none">%w</div>`,
	`<span style="color:red; display: none;">%w</span>`,
	`<span style="visibility:hidden">%w</span>`,
	`<div style="visibility: collapse">%w</div>`,
	`<span aria-hidden="true">%w</span>`,
	`<div hidden><p>%w</p></div>`,
	`<figcaption hidden>%w <a href="/l">x</a></figcaption>`,
	`<figcaption style="display:none">%w</figcaption>`,
	`<script style="display:block">var %w = 1;</script>`,
	`<style style="display:block">.%w{color:red}</style>`,
	`<p style="DISPLAY: none">%w</p>`,
	`<span style="VISIBILITY:hidden">%w</span>`,
	`<span style="color:red; visibility:hidden">%w</span>`,
	// every tag the converter treats specially, hidden
	`<font hidden>%w</font>`,
	`<font color="red" style="display:none">%w</font>`,
	`<a href="/x" hidden>%w</a>`,
	`<a href="javascript:void(0)" style="display:none">%w</a>`,
	`<ul hidden><li>%w</li></ul>`,
	`<blockquote style="display:none">%w</blockquote>`,
	`<pre hidden>%w</pre>`,
	`<h2 aria-hidden="true">%w</h2>`,
	`<table hidden><thead><tr><th>%w</th><th>b</th></tr></thead><tr><td>c</td><td>d</td></tr></table>`,
	`<figure hidden><img src="h.png"><figcaption>%w</figcaption></figure>`,
	`<section style="visibility:hidden"><p>%w</p></section>`,
	// hidden parts inside the label of a link that is rewritten to text
	`<a href="javascript:void(0)"><span>label <span hidden>%w</span></span></a>`,
	`<a href="javascript:;"><b>x<script>var %w=1</script></b></a>`,
	`<a href="javascript:void(0)">label<span style="display:none">%w</span></a>`,
}

// list 3: whole pages; the token sits in a hidden structural part (row, row
// group, cell, caption, list item) of a structure that is otherwise retained
var c04HiddenParts = []string{
	`<p>alpha</p><table><thead><tr><th>h1</th><th>h2</th></tr></thead><tbody><tr hidden><td>%w</td><td>x</td></tr><tr><td>a</td><td>b</td></tr></tbody></table>`,
	`<p>alpha</p><table><thead><tr><th>h1</th><th>h2</th></tr></thead><tbody style="display:none"><tr><td>%w</td><td>x</td></tr></tbody><tbody><tr><td>a</td><td>b</td></tr></tbody></table>`,
	`<p>alpha</p><table><thead><tr><th>h1</th><th>h2</th></tr></thead><tbody><tr><td>a</td><td>b</td></tr></tbody><tfoot hidden><tr><td>%w</td><td>f</td></tr></tfoot></table>`,
	`<p>alpha</p><table><caption hidden>%w</caption><thead><tr><th>h1</th><th>h2</th></tr></thead><tbody><tr><td>a</td><td>b</td></tr></tbody></table>`,
	`<p>alpha</p><table><thead><tr><th>h1</th><th aria-hidden="true">%w</th></tr></thead><tbody><tr><td>a</td><td style="visibility:hidden">b%w</td></tr></tbody></table>`,
	`<ul><li hidden>%w</li><li>item</li></ul>`,
	`<ol><li>item</li><li style="display:none"><p>%w</p></li></ol>`,
	`<table><tr><td>layout</td><td hidden>%w</td></tr><tr style="display:none"><td>%w</td></tr></table>`,
}

// list 2: not reading content (allowed inside retained data tables and figures)
var c04NonReading = []string{
	"<form><label>%w</label></form>",
	`<input type="text" value="%w">`,
	"<button>%w</button>",
	"<select><option>%w</option></select>",
	"<textarea>%w</textarea>",
	"<noscript>%w</noscript>",
	"<svg><text>%w</text></svg>",
	"<object><p>%w</p></object>",
	"<applet>%w</applet>",
	`<iframe src="https://evil.example/x">%w</iframe>`,
	"<embed src=\"%w.swf\">",
}

// placements: %s is the element under test
var c04Places = []struct {
	html       string
	inTableFig bool
}{
	{`<div><p>alpha beta</p>%s<p>gamma delta</p></div>`, false},
	{`<div><p>alpha %s beta</p></div>`, false},
	{`<ul><li>item %s one</li></ul>`, false},
	{`<blockquote>quote %s words</blockquote>`, false},
	{`<div>%s</div><p>alpha</p>`, false},
	{`<p>alpha</p><table><thead><tr><th>h1</th><th>h2</th></tr></thead><tbody><tr><td>cell %s one</td><td>two</td></tr></tbody></table>`, true},
	{`<p>alpha</p><figure><img src="f.png"><figcaption>capt %s ion</figcaption></figure>`, true},
	{`<p>alpha</p><figure><img src="f.png"><figcaption>capt <a href="/l">link</a> %s ion</figcaption></figure>`, true},
	{`<p>alpha</p><figure><img src="f.png">%s<figcaption>capt</figcaption></figure>`, true},
	{`<table><tr><td>layout %s cell</td></tr></table>`, false},
	{`<p>alpha</p><figure><img src="f.png"><figcaption><a href="/l">%s</a></figcaption></figure>`, true},
	{`<p>alpha</p><figure><img src="f.png"><figcaption>%s</figcaption></figure>`, true},
	{`<p>alpha</p><video src="v.mp4"><p>fallback</p>%s</video><p>beta</p>`, false},
	{`<p>alpha</p><table><thead><tr><th>h1</th><th>h2</th></tr></thead><tbody><tr><td>%s</td><td>two</td></tr></tbody></table>`, true},
}

type c04Counter struct{}

func (c04Counter) Count(s string) int { return len(strings.Fields(s)) }

// HarnessC04Leak: every element of both lists at every placement. All
// elements of the built document are forced to be content (classification can
// only remove), then both views are rendered: the token must not appear
// (list 1: anywhere; list 2: outside retained data tables and figures).
func HarnessC04Leak() {
	var el string
	list := vx.Choose("list", 3)
	pl := c04Places[0]
	tok := "zqtoken"
	body := ""
	switch list {
	case 0:
		el = c04Hidden[vx.Choose("el", len(c04Hidden))]
	case 1:
		el = c04NonReading[vx.Choose("el", len(c04NonReading))]
	case 2:
		el = c04HiddenParts[vx.Choose("el", len(c04HiddenParts))]
		body = strings.ReplaceAll(el, "%w", tok)
		pl.html = "(whole page)"
	}
	if list < 2 {
		pl = c04Places[vx.Choose("place", len(c04Places))]
		body = strings.Replace(pl.html, "%s", strings.Replace(el, "%w", tok, 1), 1)
	}
	flags := converter.Default
	if vx.Choose("flags", 2) == 1 {
		flags = converter.SkipUnlikelies
	}
	doc := vx.ParseHTML("<html><head><title>T</title><meta name=\"description\" content=\"" + tok + "\"></head><body>" + body + "</body></html>")
	b := webdoc.NewWebDocumentBuilder(c04Counter{}, nil)
	converter.NewDomConverter(flags, b, nil, nil).Convert(dom.QuerySelector(doc, "html"))
	wd := b.Build()
	for _, e := range wd.Elements {
		e.SetIsContent(true)
	}
	text := wd.GenerateOutput(true)
	htm := wd.GenerateOutput(false)
	leak := strings.Contains(text, tok) || strings.Contains(htm, tok)
	if list == 0 || list == 2 {
		vx.Cover("hidden")
		vx.Assert(!leak, "non-rendered content leaks into the output: "+el+" in "+pl.html)
	} else if !pl.inTableFig {
		vx.Cover("nonreading")
		vx.Assert(!leak, "non-reading content leaks into the output: "+el+" in "+pl.html)
	} else {
		vx.Cover("exempt")
	}
}
