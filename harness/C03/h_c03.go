package extractor

import (
	"strings"

	"github.com/go-shiori/dom"
	vx "github.com/markusmobius/go-domdistiller/internal/zzverif"
)

// inline children of a simple paragraph; %w is replaced by a unique word
var c03Kids = []string{
	"%w ",
	`<a href="/u">%w</a> `,
	`<a href="javascript:void(0)">%w</a> `,
	"<br>",
	"<br><br>",
	"<b></b>",
	"<b>%w</b> ",
	`<font color="red">%w</font> `,
	"<span>%w</span> ",
	"<i>%w</i> ",
	"<em>%w</em> ",
	"<strong>%w</strong> ",
	"<u>%w</u> ",
	"<code>%w</code> ",
	`<a href="javascript:;"><b>%w</b></a> `,
	"<span></span>",
	`<a name="x"></a>`,
	"<!-- c -->",
	`<a href="javascript:void(0)">%w <b>%x</b> %y</a> `,
	`<font color="red">%w <b>%x</b> %y</font> `,
	`<a href="/u">%w <i>%x</i></a> `,
	`<span style="opacity:0.85">%w</span> <em style="opacity: .5; color:red">%x</em> `,
	`<a class="related" href="/u">%w</a> <a class="sidebar" href="/v">%x</a> `, // links are exempt from unlikely-content pruning whatever their class
}

var c03Containers = [][2]string{
	{"<div><p>", "</p></div>"},
	{"", ""}, // directly in <body>
	{"<ul><li>", "</li></ul>"},
	{"<blockquote>", "</blockquote>"},
	{"<table><tr><td>", "</td></tr></table>"},
	{"<div>", "</div>"},
	{"<div><p>lead words there</p></div><table><caption>cap</caption><thead><tr><th>hx</th><th>hy</th></tr></thead><tbody><tr><td>", "</td><td>cell</td></tr></tbody></table>"}, // data table
}

type c03Sym struct {
	memo map[string]int
	max  int
}

func (c *c03Sym) Count(s string) int {
	if n, ok := c.memo[s]; ok {
		return n
	}
	n := 0
	if strings.Contains(s, "tailbig") {
		n = 600 // a long article body: the first (pruning) extraction pass is the one used
	} else if strings.TrimSpace(s) != "" {
		n = vx.NondetInt("wc", 1, c.max)
	}
	c.memo[s] = n
	return n
}

// HarnessC03Paragraph: a paragraph made of n children drawn from the menu of
// text, line breaks and plain inline/link elements, in each kind of container,
// followed by an ordinary paragraph; real conversion, classification (symbolic
// word counts) and rendering. Either every word of the paragraph is in the
// distilled text or none is.
func HarnessC03Paragraph() {
	n := vx.Param("n", 3)
	nk := vx.Param("kinds", len(c03Kids))
	cont := c03Containers[vx.Choose("container", vx.Param("containers", len(c03Containers)))]
	body := ""
	var words []string
	desc := ""
	for i := 0; i < n; i++ {
		k := vx.Param("from", 0) + vx.Choose("kid", nk)
		w := "pw" + string(rune('a'+i)) + "x"
		kid := c03Kids[k]
		for _, ph := range []string{"%w", "%x", "%y"} {
			if strings.Contains(kid, ph) {
				words = append(words, w+ph[1:])
				kid = strings.Replace(kid, ph, w+ph[1:], 1)
			}
		}
		body += kid
		desc += string(rune('A' + k))
	}
	tail := "<div><p>tail words here</p></div>"
	if cont[0] == "" && vx.Choose("alone", 2) == 1 {
		tail = "" // the paragraph is all there is in <body>
	}
	lead := ""
	if vx.Param("bigtail", 0) == 1 && tail != "" {
		// a long page that also has blocks marked as unlikely content with the
		// class names some of the inline children carry
		lead = `<div class="related"><p>rel words</p></div><div class="sidebar">side words</div>`
		tail = "<div><p>tailbig words here</p></div>"
	}
	page := "<html><head><title>T</title></head><body>" + lead + cont[0] + body + cont[1] + tail + "</body></html>"
	doc := vx.ParseHTML(page)
	ce := NewContentExtractor(dom.QuerySelector(doc, "html"), nil, nil)
	ce.WordCounter = &c03Sym{memo: map[string]int{}, max: vx.Param("maxwc", 100)}
	wd, _ := ce.ExtractContent()
	text := " " + strings.Join(strings.Fields(wd.GenerateOutput(true)), " ") + " "
	present := 0
	for _, w := range words {
		if strings.Contains(text, " "+w+" ") {
			present++
		}
	}
	if len(words) == 0 {
		return
	}
	if present == 0 {
		vx.Cover("dropped")
	} else {
		vx.Cover("kept")
		vx.Assert(present == len(words), "paragraph cut in the middle: only some of its words are in the distilled text (children "+desc+")")
	}
}
