package zzverif

// Page templates shared by the whole-Apply harnesses. They exercise every
// component that rewrites nodes, logs, or that pagination touches.
var Pages = []string{
	// 0: article with pager, figure+noscript, lazy image, picture, data table, embed, font, javascript: anchor
	`<html><head><title>A fairly long page title for the article</title><meta property="og:title" content="OG title"><meta property="og:type" content="article"><meta property="og:url" content="http://h.t/a"><meta property="og:image" content="http://h.t/i.png"></head><body>
<div class="sidebar"><a href="/x">nav link</a></div>
<div><h1>Heading words</h1><p>First paragraph with enough words to be classified as content by the classifier, twenty words are needed here so keep typing a few more words.</p>
<p>Second paragraph, also long enough to be content, with a <a href="/rel">relative link</a> and more text to pad it out to the threshold we need for it.</p>
<figure><noscript><img src="real.png"></noscript><img data-src="lazy.png" src="data:image/gif;base64,R0lGOD"><figcaption>cap <a href="/c">t</a></figcaption></figure>
<picture><source data-srcset="s1.png 1x, s2.png 2x" srcset="data:image/gif;base64,R0"><img data-original="orig.png" src="ph.gif"></picture>
<p><font color="red">fonted words here</font> and <a href="javascript:void(0)">js link</a> tail words for the paragraph to be a bit longer than before.</p>
<iframe src="https://www.youtube.com/embed/abc123"></iframe>
<video src="v.mp4" poster="p.png"><source src="v2.mp4"></video>
<table><thead><tr><th>h1</th><th>h2</th></tr></thead><tbody><tr><td>c1 <img src="t.png"></td><td>c2</td></tr></tbody></table>
<ul><li>one item</li><li>two item</li></ul>
<div class="pager"><a href="/a?page=1" rel="prev">Prev</a> <a href="/a?page=1">1</a> 2 <a href="/a?page=3">3</a> <a href="/a?page=4">4</a> <a href="/a?page=3" class="next">Next page</a></div></div></body></html>`,
	// 1: short page, path-style pager
	`<html><head><title>Short</title></head><body><div><p>Only a few words here.</p><figure><img data-src="lazy-fig.png" src="ph.gif" width="640" height="480"><figcaption>A caption for the figure</figcaption></figure><p><a href="http://h.t/story/1">1</a> <a href="http://h.t/story/3">3</a> <a href="http://h.t/story/3">next</a></p></div></body></html>`,
	// 2: no pager at all, layout table, schema.org microdata
	`<html><head><title>Plain page title - Site</title></head><body itemscope itemtype="http://schema.org/Article"><h1 itemprop="headline">Schema headline</h1><span itemprop="author" itemscope itemtype="http://schema.org/Person"><span itemprop="name">Ann Author</span></span><table><tr><td><p>Layout cell text that is long enough to count as a paragraph of the article body, more words, more words, more words.</p></td></tr></table></body></html>`,
	// 3: custom OpenGraph prefixes, lazy image with several lazy attributes, query pager with two numeric parameters
	`<html prefix="fb: http://ogp.me/ns# art: http://ogp.me/ns/article#"><head><title>Prefixed page title words</title><meta property="fb:title" content="FB title"><meta property="fb:type" content="article"><meta property="fb:url" content="http://h.t/p"><meta property="fb:image" content="http://h.t/fb.png"><meta property="art:author" content="http://h.t/ann"></head><body><div>
<p>Paragraph one of the prefixed page with enough words to be classified as content by the classifier, keep typing a few more words here.</p>
<img src="ph.gif" data-src="lazy-a.png" data-url="lazy-b.png" data-srcset="la.png 1x" datasrcset="lb.png 2x">
<p>Paragraph two of the prefixed page, long enough as well, with more and more words to reach the length that is needed for content.</p>
<p><a href="/list?cat=1&amp;page=1">1</a> <a href="/list?cat=2&amp;page=2">2</a> <a href="/list?cat=3&amp;page=3">3</a></p></div></body></html>`,
	// 4: descending pager, current page decorated
	`<html><head><base href="http://h.t/archive?page=2"><title>Archive listing page</title></head><body><div><p>Paragraph of the archive page with enough words to be classified as content by the classifier, keep typing a few more words here.</p>
<div class="nav"><a href="/archive?page=4">4</a> <a href="/archive?page=3">3</a> <b>2</b> <a href="/archive?page=1">1</a></div>
<div class="pager"><a class="nav" href="/archive/plans/3">Next</a></div><div class="pager"><a class="nav" href="/archive/photo/3">Next</a></div></div></body></html>`,
	// 5: OpenGraph prefixes declared with xmlns attributes, https and multi-valued schema.org item types, prev/next links under two "negative" ancestors, data table before a marked subtree
	`<html xmlns:ogx="http://ogp.me/ns#" xmlns:artx="http://ogp.me/ns/article#"><head><title>Exotic markup page title words</title><meta property="ogx:title" content="OGX title"><meta property="ogx:type" content="article"><meta property="ogx:url" content="http://h.t/x"><meta property="ogx:image" content="http://h.t/x.png"><meta property="artx:section" content="Sec"></head><body>
<div id="main"><div itemscope itemtype="https://schema.org/Article"><h1 itemprop="headline">Secure headline words</h1></div>
<div itemscope itemtype="http://schema.org/Article http://schema.org/ImageObject"><span itemprop="headline">Double typed item</span> by <span itemprop="author">Ann Two</span>, <span itemprop="copyrightHolder">Holder Inc</span> <img itemprop="contentUrl" src="two.png"></div>
<p style="margin:0; display:block">Paragraph <span style="display:none">hidden words</span> one of the exotic page with enough words to be classified as content by the classifier, keep typing a few more words here and there.</p>
<table><caption>Numbers</caption><thead><tr><th>k</th><th>v</th></tr></thead><tbody><tr><td>one</td><td>1</td></tr></tbody></table>
<div class="comment-box"><p>marked words</p></div>
<p>Paragraph two of the exotic page, long enough as well, with more and more words to reach the length that is needed for content, and a note<a href="#fn">*</a>.</p></div>
<div class="footer"><div class="related"><a class="prev" href="/x/1">Prev</a> <a class="next" href="/x/3">Next</a></div></div></body></html>`,
}
