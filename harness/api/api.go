// Package zzverif is the harness API. It is overlaid into /repo as
// internal/zzverif (never written to disk there).
//
// Under the symbolic engine (gosx) every function here is intercepted: the
// Nondet* functions return solver variables, Assert becomes a solver query,
// Choose forks. Compiled natively (replay, translation validation) the same
// functions read a table of concrete values, so one harness source serves as
// the symbolic entry point and as the concrete replay test.
//
// Restricted to Go 1.20 (the repository's language version).
package zzverif

import (
	"encoding/json"
	"fmt"
	"net/http"
	"net/http/httptest"
	"os"
	"sort"
	"strings"

	"golang.org/x/net/html"
)

// Input is the table of concrete values for one native run.
type Input struct {
	Bools  map[string][]bool  `json:"bools"`
	Ints   map[string][]int   `json:"ints"`
	Strs   map[string][][]int `json:"strs"` // bytes as ints (any byte value survives JSON)
	Params map[string]int     `json:"params"`
	Random int64              `json:"random"` // != 0: draw missing values pseudo-randomly (translation validation)
}

var (
	In       = Input{}
	Drawn    = Input{Bools: map[string][]bool{}, Ints: map[string][]int{}, Strs: map[string][][]int{}}
	Failed   []string
	Covered  = map[string]int{}
	Observed []string
	rng      uint64
)

// LoadReplay reads an input table written by the engine.
func LoadReplay(path string) {
	b, err := os.ReadFile(path)
	if err != nil {
		panic(err)
	}
	In = Input{}
	if err := json.Unmarshal(b, &In); err != nil {
		panic(err)
	}
	rng = uint64(In.Random)*2862933555777941757 + 3037000493
	Failed, Observed = nil, nil
	Covered = map[string]int{}
	Drawn = Input{Bools: map[string][]bool{}, Ints: map[string][]int{}, Strs: map[string][][]int{}}
}

// DumpDrawn writes the values actually consumed by the run (so that the engine
// can be run concretely on exactly the same values).
func DumpDrawn(path string) {
	d := Drawn
	d.Params = In.Params
	b, _ := json.Marshal(d)
	if err := os.WriteFile(path, b, 0o644); err != nil {
		panic(err)
	}
}

func rnd(n int) int {
	rng = rng*6364136223846793005 + 1442695040888963407
	return int((rng >> 33) % uint64(n))
}

// Param is a concrete bound chosen by the check tier (gosx -param name=v).
func Param(name string, def int) int {
	if v, ok := In.Params[name]; ok {
		return v
	}
	return def
}

func NondetBool(name string) bool {
	var r bool
	if v := In.Bools[name]; len(v) > 0 {
		r = v[0]
		In.Bools[name] = v[1:]
	} else if In.Random != 0 {
		r = rnd(2) == 1
	}
	Drawn.Bools[name] = append(Drawn.Bools[name], r)
	return r
}

// NondetInt returns an arbitrary integer in [lo,hi].
func NondetInt(name string, lo, hi int) int {
	r := lo
	if v := In.Ints[name]; len(v) > 0 {
		r = v[0]
		In.Ints[name] = v[1:]
	} else if In.Random != 0 {
		r = lo + rnd(hi-lo+1)
	}
	Drawn.Ints[name] = append(Drawn.Ints[name], r)
	return r
}

// Choose returns an arbitrary value in [0,n): a structural case split (the
// engine forks without consulting the solver).
func Choose(name string, n int) int { return NondetInt(name, 0, n-1) }

// NondetString returns an arbitrary string of at most maxLen bytes, every byte
// in 1..127.
func NondetString(name string, maxLen int) string { return NondetStringIn(name, maxLen, "") }

// NondetStringIn is NondetString with every byte drawn from alphabet.
func NondetStringIn(name string, maxLen int, alphabet string) string {
	var bs []int
	if v := In.Strs[name]; len(v) > 0 {
		bs = v[0]
		In.Strs[name] = v[1:]
	} else if In.Random != 0 {
		n := rnd(maxLen + 1)
		for i := 0; i < n; i++ {
			if alphabet == "" {
				bs = append(bs, 1+rnd(127))
			} else {
				bs = append(bs, int(alphabet[rnd(len(alphabet))]))
			}
		}
	}
	if bs == nil {
		bs = []int{}
	}
	Drawn.Strs[name] = append(Drawn.Strs[name], bs)
	out := make([]byte, len(bs))
	for i, b := range bs {
		out[i] = byte(b)
	}
	return string(out)
}

// AssumeFailed is the panic value of a failed assumption (native runs).
type AssumeFailed struct{}

func Assume(c bool) {
	if !c {
		panic(AssumeFailed{})
	}
}

func Assert(c bool, msg string) {
	if !c {
		Failed = append(Failed, msg)
	}
}

// Cover marks a point that must be reached on at least one feasible path
// (guard against vacuous harnesses).
func Cover(label string) { Covered[label]++ }

// Observe records concrete values; used to compare the engine's concrete
// execution with the native one (translation validation of the interpreter).
func Observe(vals ...interface{}) {
	var sb strings.Builder
	for i, v := range vals {
		if i > 0 {
			sb.WriteByte('|')
		}
		sb.WriteString(fmt.Sprint(v))
	}
	Observed = append(Observed, sb.String())
}

// ParseHTML parses a concrete document (native parser; outside the encoding).
func ParseHTML(s string) *html.Node {
	doc, err := html.Parse(strings.NewReader(s))
	if err != nil {
		panic(err)
	}
	return doc
}

// ServeHTML makes body available over HTTP and returns its URL and a function
// that releases the server. Natively this is a loopback httptest server; under
// the engine the HTTP client is a stub that returns body for that URL.
func ServeHTML(body string) (string, func()) {
	srv := httptest.NewServer(http.HandlerFunc(func(w http.ResponseWriter, r *http.Request) {
		w.Header().Set("Content-Type", "text/html; charset=utf-8")
		w.Write([]byte(body))
	}))
	return srv.URL + "/zzpage", srv.Close
}

// TempFile writes body to a temporary file (engine: a stub file system).
func TempFile(body string) (string, func()) {
	f, err := os.CreateTemp("", "zzverif*.html")
	if err != nil {
		panic(err)
	}
	f.WriteString(body)
	f.Close()
	return f.Name(), func() { os.Remove(f.Name()) }
}

// MapOrderAll switches exploration of all map iteration orders on or off
// (engine only; natively the Go runtime randomises).
func MapOrderAll(on bool) {}

// MapOrder selects how the engine iterates over Go maps from now on: 0 in
// insertion order, 1 reversed, 3 rotated by one (fixed alternative schedules,
// no fork), 2 every permutation (case split; maps of at most 5 entries).
// Natively a no-op: the Go runtime randomises.
func MapOrder(mode int) {}

// Freeze marks everything reachable from the arguments as caller-owned: any
// later write into it is reported by the engine's write-set monitor.
func Freeze(roots ...interface{}) {}

// Thaw ends monitoring.
func Thaw() {}

// GlobalWrites switches the package-level-variable write monitor on or off.
func GlobalWrites(on bool) {}

// Symbolic reports whether the harness runs under the engine.
func Symbolic() bool { return false }

// Report prints the outcome of a native run in the format the driver parses.
func Report() {
	for _, f := range Failed {
		fmt.Println("REPLAY-FAILED: " + f)
	}
	keys := make([]string, 0, len(Covered))
	for k := range Covered {
		keys = append(keys, k)
	}
	sort.Strings(keys)
	for _, k := range keys {
		fmt.Printf("REPLAY-COVER: %s %d\n", k, Covered[k])
	}
	for _, o := range Observed {
		fmt.Println("REPLAY-OBSERVE: " + o)
	}
}
