package markup

import (
	"strings"

	"github.com/go-shiori/dom"
	"github.com/markusmobius/go-domdistiller/data"
	vx "github.com/markusmobius/go-domdistiller/internal/zzverif"
)

// c14Stub is a markup source whose answers are arbitrary but stable.
type c14Stub struct {
	title, typ, url, desc, pub, copyr, author string
	images                                  []data.MarkupImage
	article                                 *data.MarkupArticle
	optOut                                  bool
}

func (s *c14Stub) Title() string                 { return s.title }
func (s *c14Stub) Type() string                  { return s.typ }
func (s *c14Stub) URL() string                   { return s.url }
func (s *c14Stub) Images() []data.MarkupImage    { return s.images }
func (s *c14Stub) Description() string           { return s.desc }
func (s *c14Stub) Publisher() string             { return s.pub }
func (s *c14Stub) Copyright() string             { return s.copyr }
func (s *c14Stub) Author() string                { return s.author }
func (s *c14Stub) Article() *data.MarkupArticle  { return s.article }
func (s *c14Stub) OptOut() bool                  { return s.optOut }

func c14NewStub(tag string, group int) *c14Stub {
	m := vx.Param("len", 1)
	str := func(n string, g int) string {
		if g != group {
			return ""
		}
		v := vx.NondetStringIn(n, m, "x")
		if v != "" {
			v = tag + v // make values of different sources distinguishable
		}
		return v
	}
	s := &c14Stub{title: str("title", 0), typ: str("type", 0), url: str("url", 0), desc: str("desc", 1), pub: str("pub", 1), copyr: str("copyr", 2), author: str("author", 2)}
	if group == 3 {
		switch vx.Choose("images", 3) {
		case 1:
			s.images = []data.MarkupImage{}
		case 2:
			s.images = []data.MarkupImage{{URL: tag + "img"}}
		}
		if vx.Choose("article", 2) == 1 {
			s.article = &data.MarkupArticle{Section: tag + "section", Authors: []string{tag + "a"}}
		}
	}
	s.optOut = vx.NondetBool("optout")
	return s
}

// HarnessC14Precedence: markup.Parser over 1..3 sources with arbitrary
// (empty/non-empty) answers: every MarkupInfo field is the first non-empty
// answer in source order, images come from the first source with at least one
// image, the article record from the first source that has one, and everything
// is empty when any source opts out.
func HarnessC14Precedence() {
	n := 1 + vx.Choose("sources", 3)
	field := vx.Choose("field", 4) // which group of fields is symbolic on this path (keeps the product small)
	var stubs []*c14Stub
	var accs []Accessor
	for i := 0; i < n; i++ {
		s := c14NewStub(string(rune('A'+i)), field)
		stubs = append(stubs, s)
		accs = append(accs, s)
	}
	info := (&Parser{accessors: accs}).MarkupInfo()
	opt := false
	for _, s := range stubs {
		if s.optOut {
			opt = true
		}
	}
	if opt {
		vx.Cover("optout")
		vx.Assert(info.Title == "" && info.Type == "" && info.URL == "" && info.Description == "" && info.Publisher == "" &&
			info.Copyright == "" && info.Author == "" && len(info.Images) == 0 && info.Article.Section == "" && len(info.Article.Authors) == 0,
			"MarkupInfo is not empty although a source opts out")
		return
	}
	first := func(get func(*c14Stub) string) string {
		for _, s := range stubs {
			if v := get(s); v != "" {
				return v
			}
		}
		return ""
	}
	vx.Cover("precedence")
	vx.Assert(info.Title == first(func(s *c14Stub) string { return s.title }), "Title is not the first non-empty title in source order")
	vx.Assert(info.Type == first(func(s *c14Stub) string { return s.typ }), "Type is not the first non-empty type in source order")
	vx.Assert(info.URL == first(func(s *c14Stub) string { return s.url }), "URL is not the first non-empty url in source order")
	vx.Assert(info.Description == first(func(s *c14Stub) string { return s.desc }), "Description is not the first non-empty one in source order")
	vx.Assert(info.Publisher == first(func(s *c14Stub) string { return s.pub }), "Publisher is not the first non-empty one in source order")
	vx.Assert(info.Copyright == first(func(s *c14Stub) string { return s.copyr }), "Copyright is not the first non-empty one in source order")
	vx.Assert(info.Author == first(func(s *c14Stub) string { return s.author }), "Author is not the first non-empty one in source order")
	wantImg := ""
	for _, s := range stubs {
		if len(s.images) > 0 {
			wantImg = s.images[0].URL
			break
		}
	}
	gotImg := ""
	if len(info.Images) > 0 {
		gotImg = info.Images[0].URL
	}
	vx.Assert(gotImg == wantImg, "Images do not come from the first source that has an image")
	wantSec := ""
	for _, s := range stubs {
		if s.article != nil {
			wantSec = s.article.Section
			break
		}
	}
	vx.Assert(info.Article.Section == wantSec, "the article record is not taken from the first source that has one")
}

// HarnessC14Real: the three real parsers on a generated page: which of the
// OpenGraph required properties are present (content bytes symbolic: empty or
// not), schema.org Article item, IE Reading View metas, and the IE_RM_OFF
// opt-out tag in head or body. Reference precedence over the planted values.
func HarnessC14Real() {
	ogVal := func(name string) (string, bool) {
		switch vx.Choose("og"+name, 3) {
		case 0:
			return "", false // tag absent
		case 1:
			return "", true // tag present, empty content
		}
		return "og-" + name, true
	}
	head := "<title>doc title</title>"
	ogAll := true
	ogTitle := ""
	var realOG []string
	ogWebsite, ogImage := false, ""
	for _, name := range []string{"title", "type", "url", "image"} {
		v, present := ogVal(name)
		c := v
		if name == "type" && v != "" {
			c = "article"
			if vx.Choose("typekind", 2) == 1 {
				c, ogWebsite = "website", true
			}
		}
		if name == "url" && v != "" {
			c = "http://h.t/og"
		}
		if name == "image" && v != "" {
			// absolute, protocol-relative or root-relative: all are image values
			c = []string{"http://h.t/og.png", "//h.t/og.png", "/og.png"}[vx.Choose("imgform", 3)]
			ogImage = c
		}
		if present {
			head += `<meta property="og:` + name + `" content="` + c + `">`
		}
		if c != "" {
			realOG = append(realOG, name)
		}
		if c == "" {
			ogAll = false
		}
		if name == "title" {
			ogTitle = c
		}
	}
	// article:* properties, before or after og:type
	artOrder := vx.Choose("article", 9)
	// 4..8: exactly one article:* property, after og:type (round k): any single
	// one of them makes the OpenGraph source "have" an article record
	artSingles := [][2]string{{"section", "og-section"}, {"published_time", "2020-01-02"}, {"modified_time", "2020-02-03"}, {"expiration_time", "2021-03-04"}, {"author", "http://h.t/og-author"}}
	artSec := `<meta property="article:section" content="og-section">`
	artTime := `<meta property="article:published_time" content="2020-01-02">`
	before := func(x string) {
		if strings.Contains(head, `<meta property="og:type"`) {
			head = strings.Replace(head, `<meta property="og:type"`, x+`<meta property="og:type"`, 1)
		} else {
			head = x + head
		}
	}
	switch artOrder {
	case 1: // both after og:type
		head += artSec + artTime
	case 2: // both before og:type (the parser ignores article:* tags it meets before og:type: not claimed)
		before(artSec + artTime)
	case 3: // one before, one after
		before(artSec)
		head += artTime
	case 4, 5, 6, 7, 8:
		head += `<meta property="article:` + artSingles[artOrder-4][0] + `" content="` + artSingles[artOrder-4][1] + `">`
	}
	// a property with a real value may be preceded by an empty placeholder
	// occurrence of itself: the block still provides that value
	if artOrder == 0 && len(realOG) > 0 {
		if d := vx.Choose("dup", len(realOG)+1); d > 0 {
			tag := `<meta property="og:` + realOG[d-1] + `"`
			filler := tag + ` content="">`
			if vx.Choose("dupform", 2) == 1 {
				filler = tag + `>`
			}
			head = strings.Replace(head, tag, filler+tag, 1)
		}
	}
	body := ""
	schema := vx.Choose("schema", 3)
	switch schema {
	case 1:
		body += `<div itemscope itemtype="http://schema.org/Article"><h1 itemprop="headline">schema-title</h1><span itemprop="author" itemscope itemtype="http://schema.org/Person"><span itemprop="name">schema-author</span></span><p>text</p></div>`
	case 2:
		body += `<div itemscope itemtype="http://schema.org/Article"><span itemprop="name">schema-name</span><p>text</p></div>`
	}
	relAuthor := vx.Choose("relauthor", 2) == 1
	if relAuthor {
		body += `<a rel="author" href="/ann">rel-author</a>`
	}
	ie := vx.Choose("ie", 2) == 1
	if ie {
		head += `<meta name="title" content="ie-title"><meta name="copyright" content="ie-copy">`
		body += `<span class="byline-name"> ie-author </span>`
	}
	off := vx.Choose("optout", 5)
	offTag := []string{"", `<meta name="IE_RM_OFF" content="true">`, `<meta name="ie_rm_off" content="TRUE">`, `<meta name="IE_RM_OFF" content="true">`, `<meta name="IE_RM_OFF" content="false">`}[off]
	if off == 3 {
		body += offTag // the tag may also end up in the body
	} else {
		head += offTag
	}
	doc := vx.ParseHTML("<html><head>" + head + "</head><body>" + body + "<p>more</p></body></html>")
	info := NewParser(dom.QuerySelector(doc, "html"), &data.TimingInfo{}).MarkupInfo()
	if off >= 1 && off <= 3 {
		vx.Cover("optout")
		vx.Assert(info.Title == "" && info.Author == "" && info.Copyright == "" && info.Type == "" && info.URL == "" && len(info.Images) == 0,
			"MarkupInfo is not empty although the page opts out with IE_RM_OFF")
		return
	}
	wantTitle := ""
	switch {
	case ogAll:
		wantTitle = ogTitle
	case schema == 1:
		wantTitle = "schema-title"
	case schema == 2:
		wantTitle = "schema-name"
	case ie:
		wantTitle = "ie-title"
	}
	vx.Cover("real")
	vx.Assert(info.Title == wantTitle, "Title does not follow the precedence OpenGraph(valid) > schema.org > IE Reading View: want "+wantTitle)
	wantAuthor := ""
	switch {
	case schema == 1:
		wantAuthor = "schema-author"
	case relAuthor:
		wantAuthor = "rel-author" // schema.org's rel=author fallback outranks the IE byline
	case ie:
		wantAuthor = "ie-author"
	}
	vx.Assert(strings.TrimSpace(info.Author) == wantAuthor, "Author does not follow the precedence: want "+wantAuthor)
	wantCopy := ""
	if ie {
		wantCopy = "ie-copy"
	}
	vx.Assert(info.Copyright == wantCopy, "Copyright does not come from the IE Reading View tag")
	if ogAll && ogWebsite && artOrder != 0 {
		vx.Cover("og-not-article")
		vx.Assert(info.Article.Section != "og-section" && info.Article.PublishedTime != "2020-01-02", "article:* properties of an OpenGraph block whose og:type is not article are used as the article record")
	}
	if ogAll && !ogWebsite && (artOrder == 1 || artOrder == 3) {
		vx.Cover("og-article")
		vx.Assert(info.Article.PublishedTime == "2020-01-02", "an article:* property that follows og:type in a valid OpenGraph block is missing from the article record")
		if artOrder == 1 {
			vx.Assert(info.Article.Section == "og-section", "the article record of a valid OpenGraph block is incomplete")
		}
	}
	if ogAll && !ogWebsite && artOrder >= 4 {
		vx.Cover("og-article-single")
		got := map[string]string{"section": info.Article.Section, "published_time": info.Article.PublishedTime, "modified_time": info.Article.ModifiedTime, "expiration_time": info.Article.ExpirationTime, "author": strings.Join(info.Article.Authors, "|")}
		for _, kv := range artSingles {
			want := ""
			if kv[0] == artSingles[artOrder-4][0] {
				want = kv[1]
			}
			vx.Assert(got[kv[0]] == want, "the article record is not the one of the valid OpenGraph block, which provides only article:"+artSingles[artOrder-4][0]+" (field "+kv[0]+")")
		}
	}
	if ogAll {
		vx.Cover("og-valid")
		// (a type other than article is not reported by the OpenGraph source: Type then comes from lower sources)
		vx.Assert(info.URL == "http://h.t/og" && (ogWebsite || info.Type == "Article"), "valid OpenGraph block is not used for URL/Type")
		vx.Assert(len(info.Images) > 0 && info.Images[0].URL == ogImage, "valid OpenGraph block is not used for Images")
	} else {
		vx.Assert(info.URL != "http://h.t/og", "OpenGraph data used although a required property is missing")
	}
}
