package domutil

import (
	"strings"

	"github.com/go-shiori/dom"
	vx "github.com/markusmobius/go-domdistiller/internal/zzverif"
	"golang.org/x/net/html"
)

func c05Forbidden(key string) bool {
	return key == "id" || key == "class" || key == "style" || strings.HasPrefix(key, "on")
}

// HarnessC05Strip: whatever attribute an element or one of its descendants
// carries (arbitrary key and value bytes), after StripAttributes no id, class,
// style or on* attribute is left anywhere in the subtree.
func HarnessC05Strip() {
	keyMax := vx.Param("key", 12)
	key := vx.NondetStringIn("key", keyMax, "abcdefghijklmnopqrstuvwxyz-:")
	val := vx.NondetString("val", 2)
	tag := []string{"p", "td", "img", "table", "a", "video", "figure", "svg", "math", "font"}[vx.Choose("tag", 10)]
	root := dom.CreateElement(tag)
	carrier := root
	switch vx.Choose("where", 3) {
	case 1:
		carrier = dom.CreateElement("span")
		dom.AppendChild(root, carrier)
	case 2: // a foreign-content descendant two levels down
		g := dom.CreateElement("svg")
		carrier = dom.CreateElement("path")
		dom.AppendChild(g, carrier)
		dom.AppendChild(root, g)
	}
	pos := vx.Choose("pos", 3)
	attrs := []html.Attribute{{Key: "title", Val: "t"}, {Key: "href", Val: "h"}}
	sym := html.Attribute{Key: key, Val: val}
	switch pos {
	case 0:
		attrs = append([]html.Attribute{sym}, attrs...)
	case 1:
		attrs = []html.Attribute{attrs[0], sym, attrs[1]}
	case 2:
		attrs = append(attrs, sym)
	}
	carrier.Attr = attrs
	StripAttributes(root)
	all := append(dom.GetElementsByTagName(root, "*"), root)
	for _, e := range all {
		for _, a := range e.Attr {
			vx.Cover("kept")
			vx.Assert(!c05Forbidden(a.Key), "id/class/style/on* attribute survives StripAttributes on <"+tag+">")
		}
	}
}
