package distiller

import (
	"strings"

	"github.com/go-shiori/dom"
	vx "github.com/markusmobius/go-domdistiller/internal/zzverif"
	"golang.org/x/net/html"
)

const c05Long = "This is the article body with enough words to be classified as content by the classifier so keep typing a few more words here and there until it is long enough."

// pages whose retained parts carry markup that must not survive; KEY is the
// planted attribute name (value zq9)
var c05ApplyPages = []string{
	// 0 data table with fallback markup in a cell
	`<p>` + c05Long + `</p><table><caption>Numbers</caption><thead><tr><th>k</th><th>v</th></tr></thead><tbody><tr><td KEY="zq9">one <noscript><img src="n.png" KEY="zq9"><script>var a=1</script><style>.n{}</style></noscript></td><td>1</td></tr></tbody></table><p>` + c05Long + `</p>`,
	// 1 figure whose caption has a link and fallback markup
	`<p>` + c05Long + `</p><figure KEY="zq9"><img src="f.png" KEY="zq9"><figcaption>capt <a href="/c" KEY="zq9">link</a> <noscript><span KEY="zq9">ns</span><script>var b=1</script></noscript></figcaption></figure><p>` + c05Long + `</p>`,
	// 2 unrendered tweet with fallback markup
	`<p>` + c05Long + `</p><blockquote class="twitter-tweet" KEY="zq9"><p KEY="zq9">tweet text</p><noscript><b KEY="zq9">ns</b><style>.t{}</style></noscript><a href="https://twitter.com/u/status/123">date</a></blockquote><p>` + c05Long + `</p>`,
	// 3 paragraphs whose whole text sits inside one inline element
	`<div KEY="zq9"><strong KEY="zq9">` + c05Long + `</strong></div><p KEY="zq9"><span KEY="zq9">` + c05Long + `</span></p>`,
	// 4 fallback markup inside running text, lists, quote, pre
	`<p KEY="zq9">` + c05Long + ` <noscript><i KEY="zq9">x</i><script>var c=1</script></noscript></p><ul KEY="zq9"><li KEY="zq9">` + c05Long + `</li></ul><blockquote KEY="zq9">` + c05Long + `</blockquote><pre KEY="zq9">` + c05Long + `</pre>`,
	// 6 attribute values that try to break out of the quoting of re-emitted tags
	`<p>` + c05Long + `</p><ol start='3" KEY="zq9' type='a" KEY="zq9' reversed><li value='2" KEY="zq9'>` + c05Long + `</li></ol><ul type='disc" KEY="zq9'><li>` + c05Long + `</li></ul><blockquote cite='u" KEY="zq9'>` + c05Long + `</blockquote><pre title='t" KEY="zq9'>` + c05Long + `</pre>`,
	// 5 media and a recognised embed
	`<p>` + c05Long + `</p><img src="i.png" KEY="zq9"><video src="v.mp4" KEY="zq9"><source src="w.mp4" KEY="zq9"></video><iframe src="https://www.youtube.com/embed/abc" KEY="zq9"></iframe><p>` + c05Long + `</p>`,
}

func c05Walk(n *html.Node, key string) {
	if n.Type == html.ElementNode {
		vx.Assert(n.Data != "script" && n.Data != "style", "script/style element in Result.Node")
		placeholder := strings.Contains(dom.ClassName(n), "embed-placeholder")
		for _, a := range n.Attr {
			k := strings.ToLower(a.Key)
			bad := k == "id" || k == "style" || strings.HasPrefix(k, "on") || (k == "class" && !placeholder)
			vx.Assert(!bad, "id/class/style/on* attribute on <"+n.Data+"> in Result.Node")
		}
	}
	for c := n.FirstChild; c != nil; c = c.NextSibling {
		c05Walk(c, key)
	}
}

// HarnessC05Apply: the property on the public result. Result.Node of Apply
// (the generated HTML parsed back by the library itself) has no script/style
// element and no id/class/style/on* attribute, for pages whose retained
// subtrees (data table, caption with link, tweet, inline-only paragraphs)
// carry such markup directly or inside <noscript> fallbacks.
func HarnessC05Apply() {
	key := []string{"class", "id", "style", "onclick", "onload", "ONERROR"}[vx.Choose("key", 6)]
	page := strings.ReplaceAll(c05ApplyPages[vx.Choose("page", len(c05ApplyPages))], "KEY", key)
	r, err := Apply(vx.ParseHTML("<html><head><title>Title</title><style>.a{}</style><script>var z=0</script></head><body>"+page+"</body></html>"), nil)
	vx.Assert(err == nil && r != nil && r.Node != nil, "Apply failed")
	if r == nil || r.Node == nil {
		return
	}
	c05Walk(r.Node, key)
	if strings.Contains(r.Text, "enough words") {
		vx.Cover("content")
	}
}
