package extractor

import (
	"strings"

	"github.com/go-shiori/dom"
	"github.com/markusmobius/go-domdistiller/internal/converter"
	"github.com/markusmobius/go-domdistiller/internal/webdoc"
	vx "github.com/markusmobius/go-domdistiller/internal/zzverif"
	"golang.org/x/net/html"
)

// c05Pages: one page per retained-content kind; every element that may carry
// attributes has the placeholder attribute data-zzk="zq9" (the carrier is
// chosen by the harness, the others lose the placeholder before conversion).
var c05Pages = []string{
	// 0 text block with inline children
	`<div data-zzk="zq9"><p data-zzk="zq9">alpha beta <b data-zzk="zq9">gamma</b> <a href="/l" data-zzk="zq9">delta</a></p></div>`,
	// 1 image
	`<p>alpha beta</p><img src="i.png" data-zzk="zq9">`,
	// 2 figure with caption and link
	`<p>alpha beta</p><figure data-zzk="zq9"><img src="f.png" data-zzk="zq9"><figcaption data-zzk="zq9">capt <a href="/c" data-zzk="zq9">link</a><script>var s=1</script></figcaption></figure>`,
	// 3 data table
	`<p>alpha beta</p><table data-zzk="zq9"><thead data-zzk="zq9"><tr><th data-zzk="zq9">h1</th><th>h2</th></tr></thead><tbody><tr data-zzk="zq9"><td data-zzk="zq9">c1 <span data-zzk="zq9">s1</span><script>var t=1</script><style>.x{}</style></td><td>c2 <svg data-zzk="zq9" viewBox="0 0 1 1"><path data-zzk="zq9" d="M0 0"></path></svg></td></tr></tbody></table>`,
	// 4 video
	`<p>alpha beta</p><video src="v.mp4" data-zzk="zq9"><source src="v2.mp4" data-zzk="zq9"><track src="t.vtt" data-zzk="zq9"></video>`,
	// 5 recognised embed
	`<p>alpha beta</p><iframe src="https://www.youtube.com/embed/abc" data-zzk="zq9"></iframe>`,
	// 6 list, quote, pre
	`<ul data-zzk="zq9"><li data-zzk="zq9">item one</li></ul><blockquote data-zzk="zq9"><p>quoted words</p></blockquote><pre data-zzk="zq9">pre text</pre>`,
	// 7 unrendered tweet (embed whose own markup is kept inside the placeholder)
	`<p>alpha beta</p><blockquote class="twitter-tweet" data-zzk="zq9"><p data-zzk="zq9">tweet text <span data-zzk="zq9">here</span></p><script>var w=1</script><a href="https://twitter.com/u/status/123" data-zzk="zq9">date</a></blockquote>`,
	// 8 rendered tweet iframe
	`<p>alpha beta</p><iframe src="https://platform.twitter.com/embed/x" data-tweet-id="123" data-zzk="zq9"></iframe>`,
	// 9 standalone picture, image inside a span
	`<p>alpha beta</p><picture data-zzk="zq9"><source srcset="s.png 1x" data-zzk="zq9"><img src="p.png" data-zzk="zq9"></picture><span data-zzk="zq9"><img src="q.png" data-zzk="zq9"></span>`,
	// 10 figure without caption, picture
	`<p>alpha beta</p><figure data-zzk="zq9"><picture data-zzk="zq9"><source srcset="s.png 1x" data-zzk="zq9"><img src="p.png" data-zzk="zq9"></picture></figure>`,
	// 11 paragraphs whose whole text sits inside one inline element
	`<div data-zzk="zq9"><strong data-zzk="zq9">alpha beta gamma</strong></div><p data-zzk="zq9"><span data-zzk="zq9">delta <i data-zzk="zq9">eps</i></span></p><ul><li data-zzk="zq9"><a href="/l" data-zzk="zq9">item</a></li></ul>`,
}

type c05Counter struct{}

func (c05Counter) Count(s string) int { return len(strings.Fields(s)) }

func c05Forbidden(key string) bool {
	return key == "id" || key == "class" || key == "style" || strings.HasPrefix(key, "on")
}

// HarnessC05Output: for every kind of retained content and every element of
// it that can carry attributes, an attribute with an arbitrary key (symbolic
// bytes) and the marker value zq9 is planted; everything is marked content;
// the distilled HTML (rendered with symbolic bytes) must not contain the
// marker when the key is id/class/style/on*, and never a script or style
// element.
func HarnessC05Output() {
	kind := vx.Choose("kind", len(c05Pages))
	doc := vx.ParseHTML("<html><head><title>T</title></head><body>" + c05Pages[kind] + "</body></html>")
	var carriers []*html.Node
	for _, e := range dom.GetElementsByTagName(doc, "*") {
		if dom.HasAttribute(e, "data-zzk") {
			carriers = append(carriers, e)
		}
	}
	which := vx.Choose("carrier", len(carriers))
	key := vx.NondetStringIn("key", vx.Param("key", 7), "acdehilnorsty-k")
	vx.Assume(len(key) > 0)
	for i, e := range carriers {
		if i != which {
			dom.RemoveAttribute(e, "data-zzk")
			continue
		}
		for j := range e.Attr {
			if e.Attr[j].Key == "data-zzk" {
				e.Attr[j].Key = key
			}
		}
	}
	carrierTag := dom.TagName(carriers[which])
	b := webdoc.NewWebDocumentBuilder(c05Counter{}, nil)
	converter.NewDomConverter(converter.Default, b, nil, nil).Convert(dom.QuerySelector(doc, "html"))
	wd := b.Build()
	for _, e := range wd.Elements {
		e.SetIsContent(true)
	}
	out := wd.GenerateOutput(false)
	vx.Assert(!strings.Contains(out, "<script") && !strings.Contains(out, "<style"), "script/style element in the distilled HTML")
	if c05Forbidden(key) {
		vx.Cover("forbidden")
		vx.Assert(!strings.Contains(out, "zq9"), "id/class/style/on* attribute planted on <"+carrierTag+"> reaches the distilled HTML")
	} else if strings.Contains(out, "zq9") {
		vx.Cover("kept")
	}
	if kind != 5 && kind != 7 && kind != 8 {
		vx.Assert(!strings.Contains(out, " class=") && !strings.Contains(out, " data-"), "class/data-* attribute outside an embed placeholder")
	} else {
		vx.Cover("placeholder")
		// (an embed that the planted attribute hides is rightly dropped)
		vx.Assert(key == "hidden" || strings.Contains(out, "embed-placeholder"), "recognised embed has no placeholder")
	}
}
