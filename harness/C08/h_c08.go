package extractor

import (
	"strings"

	"github.com/go-shiori/dom"
	"github.com/markusmobius/go-domdistiller/internal/converter"
	"github.com/markusmobius/go-domdistiller/internal/filter/docfilter"
	"github.com/markusmobius/go-domdistiller/internal/webdoc"
	vx "github.com/markusmobius/go-domdistiller/internal/zzverif"
	"golang.org/x/net/html"
)

// c08Kinds is the structural menu of block kinds (text and every kind of
// non-text content element the converter can emit).
var c08Kinds = []string{
	"<p>wordA%d wordB%d</p>",
	"<img src=\"i%d.png\">",
	"<figure><img src=\"f%d.png\"><figcaption>capt%d</figcaption></figure>",
	"<video src=\"v%d.mp4\"></video>",
	"<iframe src=\"https://www.youtube.com/embed/yt%d\"></iframe>",
	"<table><thead><tr><th>h%d</th><th>x</th></tr></thead><tbody><tr><td>a</td><td>b</td></tr></tbody></table>",
	"<ul><li>item%d</li></ul>",
	"loose%d text%d ",
	"<iframe src=\"https://player.vimeo.com/video/12%d\"></iframe>",
	"<iframe src=\"https://platform.twitter.com/embed/x\" data-tweet-id=\"77%d\"></iframe>",
	"<picture><img src=\"p%d.png\"></picture>",
}

// c08Marks: what identifies the media element of kind k at position i in the output
var c08Marks = map[int]string{1: "i%d.png", 2: "f%d.png", 3: "v%d.mp4", 4: "yt%d", 5: "<th>h%d</th>", 8: "12%d", 9: "77%d", 10: "p%d.png"}

func c08Page(n int) (string, []int) {
	var sb strings.Builder
	kinds := make([]int, n)
	nk := vx.Param("kinds", len(c08Kinds))
	sb.WriteString("<html><head><title>T</title></head><body><div>")
	for i := 0; i < n; i++ {
		k := vx.Choose("kind", nk)
		kinds[i] = k
		sb.WriteString(strings.ReplaceAll(c08Kinds[k], "%d", string(rune('0'+i))))
		sb.WriteString("\n")
	}
	sb.WriteString("</div></body></html>")
	return sb.String(), kinds
}

type c08Counter struct{}

func (c08Counter) Count(s string) int { return len(strings.Fields(s)) }

// c08Pos is the position of a node in document (pre-)order of its tree.
func c08Pos(n *html.Node) int {
	if n == nil {
		return -1
	}
	root := n
	for root.Parent != nil {
		root = root.Parent
	}
	pos, found := 0, -1
	var walk func(x *html.Node)
	walk = func(x *html.Node) {
		if found >= 0 {
			return
		}
		if x == n {
			found = pos
			return
		}
		pos++
		for c := x.FirstChild; c != nil; c = c.NextSibling {
			walk(c)
		}
	}
	walk(root)
	return found
}

func c08Node(e webdoc.Element) *html.Node {
	switch x := e.(type) {
	case *webdoc.Text:
		if len(x.TextNodes) > 0 {
			return x.TextNodes[x.Start]
		}
	case *webdoc.Image:
		return x.Element
	case *webdoc.Figure:
		return x.Element
	case *webdoc.Table:
		return x.Element
	case *webdoc.Video:
		return x.Element
	case *webdoc.Embed:
		return x.Element
	}
	return nil
}

// c08Check asserts the relation of C08 on a processed document. textFlags are
// the content flags the text elements had BEFORE the document filters ran
// (snapshot; the oracle never re-reads flags the filters may have changed).
// "Nearest preceding text block" is taken in SOURCE (DOM) order, not in the
// order of the element list, so an element emitted out of place is noticed.
func c08Check(doc *webdoc.Document, textFlags map[webdoc.Element]bool, pfx string) {
	type tpos struct {
		pos  int
		flag bool
	}
	var texts []tpos
	for _, e := range doc.Elements {
		if _, ok := e.(*webdoc.Text); ok {
			texts = append(texts, tpos{c08Pos(c08Node(e)), textFlags[e]})
			vx.Assert(e.IsContent() == textFlags[e], pfx+"document filters changed the flag of a text block")
		}
	}
	promoted := 0
	for _, e := range doc.Elements {
		switch e.(type) {
		case *webdoc.Text, *webdoc.Tag:
		default:
			vx.Cover("media")
			mp := c08Pos(c08Node(e))
			prev, best := false, -1
			for _, t := range texts {
				if t.pos < mp && t.pos > best {
					best, prev = t.pos, t.flag
				}
			}
			got := e.IsContent()
			if got != prev {
				_, isImg := e.(*webdoc.Image)
				_, isFig := e.(*webdoc.Figure)
				ok := (isImg || isFig) && got
				vx.Assert(ok, pfx+"media "+e.ElementType()+" retained="+fmtBool(got)+" but nearest preceding text retained="+fmtBool(prev))
				if ok {
					promoted++
					vx.Cover("promoted")
				}
			}
		}
	}
	vx.Assert(promoted <= 1, pfx+"more than one lead image promoted")
}

func fmtBool(b bool) string {
	if b {
		return "true"
	}
	return "false"
}

// HarnessC08Flags: converter-built document for every sequence of n block
// kinds; the content flag of every Text is an arbitrary Boolean; then the
// real RelevantElements + LeadImageFinder (as ExtractContent runs them).
func HarnessC08Flags() {
	n := vx.Param("n", 4)
	page, kinds := c08Page(n)
	doc := vx.ParseHTML(page)
	b := webdoc.NewWebDocumentBuilder(c08Counter{}, nil)
	converter.NewDomConverter(converter.Default, b, nil, nil).Convert(dom.QuerySelector(doc, "html"))
	wd := b.Build()
	// every media element of the source is there: with everything retained, each
	// one shows up in the distilled HTML (a medium that follows retained text is
	// retained, whatever kind it is)
	for _, e := range wd.Elements {
		e.SetIsContent(true)
	}
	all := wd.GenerateOutput(false)
	for i, k := range kinds {
		if m, ok := c08Marks[k]; ok {
			vx.Assert(strings.Contains(all, strings.ReplaceAll(m, "%d", string(rune('0'+i)))), "a medium of the source is missing from the output although everything is retained: "+c08Kinds[k])
		}
	}
	for _, e := range wd.Elements {
		e.SetIsContent(false) // as the converter left them
	}
	flags := map[webdoc.Element]bool{}
	for _, e := range wd.Elements {
		if _, ok := e.(*webdoc.Text); ok {
			f := vx.NondetBool("flag")
			e.SetIsContent(f)
			flags[e] = f
		}
	}
	docfilter.NewRelevantElements().Process(wd)
	docfilter.NewLeadImageFinder(nil).Process(wd)
	docfilter.NewNestedElementRetainer().Process(wd)
	c08Check(wd, flags, "")
}

// symCounter gives every distinct text one symbolic word count, so the real
// classifier is decided for all counts at once.
type symCounter struct {
	memo map[string]int
	max  int
}

func (c *symCounter) Count(s string) int {
	if n, ok := c.memo[s]; ok {
		return n
	}
	n := 0
	if strings.TrimSpace(s) != "" {
		n = vx.NondetInt("wc", 1, c.max)
	}
	c.memo[s] = n
	return n
}

// HarnessC08Pipeline: whole ExtractContent with the real classifier under
// symbolic word counts. The text flags are snapshotted between the
// classification and the document filters by running the same steps
// ExtractContent runs.
// c08Primer: an earlier, unrelated extraction in the same process (a page that
// ends in retained text). The relation must hold for the page under test
// whatever was distilled before.
func c08Primer() {
	long := strings.Repeat("plenty of words make this paragraph content ", 6)
	pd := vx.ParseHTML("<html><head><title>P</title></head><body><div><img src=\"p.png\"><p>" + long + "</p><p>" + long + "</p></div></body></html>")
	pce := NewContentExtractor(dom.QuerySelector(pd, "html"), nil, nil)
	pce.ExtractContent()
}

func HarnessC08Pipeline() {
	n := vx.Param("n", 3)
	page, _ := c08Page(n)
	if vx.Choose("primer", 2) == 1 {
		c08Primer()
	}
	doc := vx.ParseHTML(page)
	ce := NewContentExtractor(dom.QuerySelector(doc, "html"), nil, nil)
	ce.WordCounter = &symCounter{memo: map[string]int{}, max: vx.Param("maxwc", 120)}
	// reference: classification only (what ExtractContent does before the document filters)
	ref := ce.createWebDocumentInfoFromPage(converter.Default)
	ce.processDocument(ref)
	var refFlags []bool
	for _, e := range ref.Elements {
		if _, ok := e.(*webdoc.Text); ok {
			refFlags = append(refFlags, e.IsContent())
		}
	}
	wd, _ := ce.ExtractContent()
	flags := map[webdoc.Element]bool{}
	i := 0
	for _, e := range wd.Elements {
		if _, ok := e.(*webdoc.Text); ok {
			if i < len(refFlags) {
				flags[e] = refFlags[i]
			}
			i++
		}
	}
	vx.Assert(i == len(refFlags), "same number of text blocks in both constructions")
	c08Check(wd, flags, "pipeline: ")
}
