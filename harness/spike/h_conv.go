package converter

import (
	"strings"

	"github.com/go-shiori/dom"
	"github.com/markusmobius/go-domdistiller/internal/webdoc"
	vx "github.com/markusmobius/go-domdistiller/internal/zzverif"
)

type stubCounter struct{}

func (stubCounter) Count(s string) int { return len(strings.Fields(s)) }

// HarnessParagraph: a paragraph made of text and inline children stays one
// text group, with all of its words, whatever the children are.
func HarnessParagraph() {
	kids := []string{"w%d ", "<b>w%d</b> ", "<a href=\"javascript:x\">w%d</a> ", "<a href=\"/u\">w%d</a> ", "<span>w%d</span> ", "<font>w%d</font> ", "<br>"}
	body := ""
	words := []string{}
	for i := 0; i < 3; i++ {
		k := vx.NondetInt("kid")
		vx.Assume(k >= 0 && k < len(kids))
		for j := range kids {
			if k == j {
				w := "w" + string(rune('0'+i))
				body += strings.Replace(kids[j], "w%d", w, 1)
				if kids[j] != "<br>" {
					words = append(words, w)
				}
			}
		}
	}
	doc := vx.ParseHTML("<html><body><div><p>" + body + "</p></div></body></html>")
	root := dom.QuerySelector(doc, "body")
	b := webdoc.NewWebDocumentBuilder(stubCounter{}, nil)
	NewDomConverter(Default, b, nil, nil).Convert(root)
	wd := b.Build()
	group := -1
	seen := ""
	for _, e := range wd.Elements {
		if t, ok := e.(*webdoc.Text); ok {
			if group == -1 {
				group = t.GroupNumber
			}
			vx.Assert(t.GroupNumber == group, "paragraph is one text group")
			seen += " " + t.Text
		}
	}
	for _, w := range words {
		vx.Assert(strings.Contains(seen, w), "word "+w+" survives conversion of "+body)
	}
	vx.Cover("para")
}
