package pagination

import (
	nurl "net/url"
	"strings"

	"github.com/go-shiori/dom"
	vx "github.com/markusmobius/go-domdistiller/internal/zzverif"
)

// HarnessPrevNext: one anchor whose href is a concrete head plus a symbolic
// tail. Whatever the tail, the next link is empty or on the page's host.
func HarnessPrevNext() {
	heads := []string{"", "/", "http://h.t/", "http://x.t/", "javascript:", "//h.t/", "HTTP://H.T/"}
	k := vx.NondetInt("head")
	vx.Assume(k >= 0 && k < len(heads))
	head := ""
	for i := range heads {
		if i == k {
			head = heads[i]
		}
	}
	tail := vx.NondetStringIn("tail", 3, "a/2?=.")
	doc := vx.ParseHTML(`<html><body><div class="pager"><a href="X">next</a></div></body></html>`)
	a := dom.QuerySelector(doc, "a")
	a.Attr[0].Val = head + tail
	page, _ := nurl.Parse("http://h.t/a/1")
	next := NewPrevNextFinder(nil).FindOutlink(doc, page, true)
	if next != "" {
		vx.Cover("found")
		u, err := nurl.Parse(next)
		vx.Assert(err == nil, "next page must parse")
		if err == nil {
			vx.Assert(u.Scheme == "http", "next page must be http")
			vx.Assert(strings.ToLower(u.Host) == "h.t", "next page must be on the page's host")
		}
	}
}
