package extractor

import (
	"strings"
	"github.com/go-shiori/dom"
	"github.com/markusmobius/go-domdistiller/internal/webdoc"
	vx "github.com/markusmobius/go-domdistiller/internal/zzverif"
)

// symCounter gives every distinct text a symbolic word count (same text,
// same count), so classification is decided for all counts at once.
type symCounter struct{ memo map[string]int }

func (c *symCounter) Count(s string) int {
	if n, ok := c.memo[s]; ok {
		return n
	}
	n := vx.NondetInt("wc")
	vx.Assume(n >= 0 && n <= 600)
	c.memo[s] = n
	return n
}

const pageC08 = `<html><head><title>T</title></head><body><div>
<p>alpha</p><img src="i1.png"><p>beta</p><video src="v.mp4"></video><p>gamma</p><img src="i2.png">
</div></body></html>`

// HarnessMedia: after the whole extraction pipeline (real classifier, symbolic
// word counts) a media element is content iff the nearest preceding text
// element is, except for at most one promoted lead image.
func HarnessMedia() {
	doc := vx.ParseHTML(pageC08)
	ce := NewContentExtractor(dom.QuerySelector(doc, "html"), nil, nil)
	ce.WordCounter = &symCounter{memo: map[string]int{}}
	wd, _ := ce.ExtractContent()
	prev := false
	promoted := 0
	for _, e := range wd.Elements {
		switch e.(type) {
		case *webdoc.Text:
			prev = e.IsContent()
		case *webdoc.Tag:
		default:
			vx.Cover("media")
			if e.IsContent() != prev {
				_, isImg := e.(*webdoc.Image)
				vx.Assert(isImg && e.IsContent(), "media flag differs from preceding text and is not a promoted image")
				promoted++
			}
		}
	}
	vx.Assert(promoted <= 1, "at most one lead image promoted")
}

func runPipe(page string, c *symCounter) ([]string, []bool, int) {
	doc := vx.ParseHTML(page)
	ce := NewContentExtractor(dom.QuerySelector(doc, "html"), nil, nil)
	ce.WordCounter = c
	wd, wc := ce.ExtractContent()
	var toks []string
	var flags []bool
	for _, e := range wd.Elements {
		if t, ok := e.(*webdoc.Text); ok {
			toks = append(toks, strings.TrimSpace(t.Text))
			flags = append(flags, t.IsContent())
		}
	}
	return toks, flags, wc
}

// HarnessUnlikely: P has a subtree marked "sidebar"; Pdel lacks it; Pneu has a
// neutral class. If Pdel yields >= 500 words the result of P equals Pdel's,
// otherwise it equals Pneu's.
func HarnessUnlikely() {
	main := `<div><p>alpha</p><p>beta</p></div>`
	mk := func(side string) string {
		return `<html><head><title>T</title></head><body>` + side + main + `</body></html>`
	}
	P := mk(`<div class="sidebar"><p>gamma</p></div>`)
	Pdel := mk(``)
	Pneu := mk(`<div class="zzz"><p>gamma</p></div>`)
	c := &symCounter{memo: map[string]int{}}
	tp, fp, wp := runPipe(P, c)
	td, fd, wdel := runPipe(Pdel, c)
	tn, fn, wn := runPipe(Pneu, c)
	content := func(t []string, f []bool) string {
		s := ""
		for i := range t {
			if f[i] {
				s += t[i] + ";"
			}
		}
		return s
	}
	if wdel >= 500 {
		vx.Cover("pruned")
		vx.Assert(wp == wdel, "word count must equal that of the page without the marked subtree")
		vx.Assert(content(tp, fp) == content(td, fd), "content must equal that of the page without the marked subtree")
	} else {
		vx.Cover("fallback")
		vx.Assert(wp == wn, "word count must equal that of the page with neutral markers")
		vx.Assert(content(tp, fp) == content(tn, fn), "content must equal that of the page with neutral markers")
	}
}
