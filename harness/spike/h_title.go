package extractor

import (
	"strings"

	"github.com/go-shiori/dom"
	vx "github.com/markusmobius/go-domdistiller/internal/zzverif"
)

type anyCounter struct{}

func (anyCounter) Count(s string) int {
	n := vx.NondetInt("wc")
	vx.Assume(n >= 0 && n <= 8)
	return n
}

// HarnessTitle: whatever the <title> bytes and whatever the word counts, the
// document title is a contiguous part of the <title> text (no h1 present).
func HarnessTitle() {
	doc := vx.ParseHTML(`<html><head><title>X</title></head><body><p>b</p></body></html>`)
	t := dom.QuerySelector(doc, "title")
	title := vx.NondetStringIn("title", 5, "a -|:")
	t.FirstChild.Data = title
	got := getDocumentTitle(dom.QuerySelector(doc, "html"), anyCounter{})
	vx.Cover("ran")
	norm := strings.Join(strings.Fields(title), " ")
	vx.Assert(strings.Contains(norm, got), "title must be a contiguous part of the normalised <title>")
}
