package domutil

import (
	"strings"

	"github.com/go-shiori/dom"
	vx "github.com/markusmobius/go-domdistiller/internal/zzverif"
	"golang.org/x/net/html"
)

// HarnessStrip: whatever attribute an element carries (symbolic key/value),
// after StripAttributes no id/class/style/on* attribute is left.
func HarnessStrip() {
	key := vx.NondetString("key", 12)
	val := vx.NondetString("val", 3)
	n := dom.CreateElement("p")
	n.Attr = append(n.Attr, html.Attribute{Key: key, Val: val})
	StripAttributes(n)
	for _, a := range n.Attr {
		vx.Cover("kept")
		vx.Assert(a.Key != "id" && a.Key != "class" && a.Key != "style", "identification/presentation attribute kept")
		vx.Assert(!strings.HasPrefix(a.Key, "on"), "event handler attribute kept")
	}
}

// HarnessVisible: canonical hiding styles hide, unrelated styles do not.
func HarnessVisible() {
	pre := vx.NondetString("pre", 3)
	vx.Assume(!strings.Contains(pre, "d") && !strings.Contains(pre, "D") && !strings.Contains(pre, "v") && !strings.Contains(pre, "V"))
	vx.Assume(pre == "" || strings.HasSuffix(pre, ";"))
	ws := vx.NondetString("ws", 2)
	vx.Assume(ws == "" || ws == " " || ws == "  ")
	valv := vx.NondetString("value", 5)
	vx.Assume(!strings.Contains(valv, ";") && !strings.Contains(valv, " "))
	n := dom.CreateElement("div")
	dom.SetAttribute(n, "style", pre+"display:"+ws+valv)
	vis := IsProbablyVisible(n)
	if valv == "none" {
		vx.Cover("none")
		vx.Assert(!vis, "display:none must hide")
	}
	if valv == "block" || valv == "inline" {
		vx.Cover("shown")
		vx.Assert(vis, "display:block must not hide")
	}
}

// HarnessRootDomain: HasRootDomain(url, root) is true exactly when the parsed
// host is root or ends in "."+root -- for every host/userinfo/path string.
func HarnessRootDomain() {
	host := vx.NondetStringIn("host", 5, "ab.")
	user := vx.NondetStringIn("user", 3, "ab.")
	path := vx.NondetStringIn("path", 1, "a=")
	u := "http://"
	if vx.NondetBool("hasUser") {
		u += user + "@"
	}
	u += host + "/" + path
	got := HasRootDomain(u, "a.b")
	want := host == "a.b" || strings.HasSuffix(host, ".a.b")
	vx.Assert(got == want, "root-domain test must follow the parsed host")
	if want {
		vx.Cover("accepted")
	}
}
