package stringutil

import (
	nurl "net/url"
	"strings"

	vx "github.com/markusmobius/go-domdistiller/internal/zzverif"
)

// HarnessAbsURL: pass-through classes are returned unchanged; every other
// parseable reference becomes an absolute URL and is a fixed point.
func HarnessAbsURL() {
	heads := []string{"", "#", "?", "/", "//c.t/", "../", "./", "data:", "javascript:", "http://o.t/"}
	k := vx.NondetInt("head")
	vx.Assume(k >= 0 && k < len(heads))
	head := ""
	for i := range heads {
		if i == k {
			head = heads[i]
		}
	}
	tail := vx.NondetStringIn("tail", 3, "ab/.?#=")
	ref := head + tail
	base, _ := nurl.Parse("http://h.t/d/p.html?x=1")
	got := CreateAbsoluteURL(ref, base)
	pass := ref == "" || strings.HasPrefix(ref, "#") || strings.HasPrefix(ref, "data:") || strings.HasPrefix(ref, "javascript:") || strings.HasPrefix(ref, "http://o.t/")
	if pass {
		vx.Cover("pass")
		vx.Assert(got == ref, "pass-through reference must be returned unchanged")
		return
	}
	vx.Cover("resolved")
	u, err := nurl.Parse(got)
	vx.Assert(err == nil, "result must parse")
	if err == nil {
		vx.Assert(u.Scheme == "http", "result must be absolute (scheme)")
		vx.Assert(u.Host != "", "result must be absolute (host)")
	}
	vx.Assert(CreateAbsoluteURL(got, base) == got, "result must be a fixed point")
}
