package docfilter

import (
	"github.com/markusmobius/go-domdistiller/internal/webdoc"
	vx "github.com/markusmobius/go-domdistiller/internal/zzverif"
)

// stubElem is a non-text, non-tag element (image/video/embed/table stand-in).
type stubElem struct {
	webdoc.BaseElement
	id int
}

func (s *stubElem) GenerateOutput(textOnly bool) string { return "" }
func (s *stubElem) ElementType() string                 { return "stub" }
func (s *stubElem) String() string                      { return "stub" }

// HarnessRelevant: for every sequence of n elements (kind chosen per slot) and
// every assignment of content flags to the text elements, a media element is
// content after RelevantElements iff the nearest preceding text is content.
func HarnessRelevant() {
	const n = 5
	doc := webdoc.NewDocument()
	kinds := make([]int, n)
	flags := make([]bool, n)
	for i := 0; i < n; i++ {
		k := vx.NondetInt("kind")
		vx.Assume(k >= 0 && k <= 1)
		if k == 0 {
			t := &webdoc.Text{}
			flags[i] = vx.NondetBool("flag")
			t.SetIsContent(flags[i])
			doc.AddElements(t)
			kinds[i] = 0
		} else {
			doc.AddElements(&stubElem{id: i})
			kinds[i] = 1
		}
	}
	NewRelevantElements().Process(doc)
	expect := false
	for i, e := range doc.Elements {
		if kinds[i] == 0 {
			expect = flags[i]
			vx.Assert(e.IsContent() == flags[i], "text flag unchanged")
		} else {
			vx.Assert(e.IsContent() == expect, "media retained iff preceding text retained")
			vx.Cover("media")
		}
	}
}

// HarnessNested: balanced tag sequences (shape chosen by forks), symbolic
// content flags on the leaves; a tag pair must be content iff it encloses a
// content leaf, and Process must not panic.
func HarnessNested() {
	doc := webdoc.NewDocument()
	type open struct {
		start *webdoc.Tag
		any   *bool
	}
	var stack []open
	var pairs []struct {
		s, e *webdoc.Tag
		any  *bool
	}
	const n = 7
	for i := 0; i < n; i++ {
		k := vx.NondetInt("ev")
		vx.Assume(k >= 0 && k <= 2)
		switch {
		case k == 0: // open
			t := webdoc.NewTag("ul", webdoc.TagStart)
			doc.AddElements(t)
			stack = append(stack, open{t, new(bool)})
		case k == 1 && len(stack) > 0: // close
			top := stack[len(stack)-1]
			stack = stack[:len(stack)-1]
			t := webdoc.NewTag("ul", webdoc.TagEnd)
			doc.AddElements(t)
			pairs = append(pairs, struct {
				s, e *webdoc.Tag
				any  *bool
			}{top.start, t, top.any})
			if len(stack) > 0 && *top.any {
				*stack[len(stack)-1].any = true
			}
		default: // leaf
			l := &stubElem{id: i}
			c := vx.NondetBool("leaf")
			l.SetIsContent(c)
			doc.AddElements(l)
			if c {
				for _, o := range stack {
					*o.any = true
				}
			}
		}
	}
	for len(stack) > 0 { // close what is still open
		top := stack[len(stack)-1]
		stack = stack[:len(stack)-1]
		t := webdoc.NewTag("ul", webdoc.TagEnd)
		doc.AddElements(t)
		pairs = append(pairs, struct {
			s, e *webdoc.Tag
			any  *bool
		}{top.start, t, top.any})
	}
	NewNestedElementRetainer().Process(doc)
	for _, p := range pairs {
		vx.Assert(p.s.IsContent() == *p.any, "start tag content iff encloses content")
		vx.Assert(p.e.IsContent() == *p.any, "end tag content iff encloses content")
		vx.Cover("pair")
	}
}
