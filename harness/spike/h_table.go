package tableclass

import (
	"strings"

	"github.com/go-shiori/dom"
	vx "github.com/markusmobius/go-domdistiller/internal/zzverif"
)

// HarnessClassify: 2x2 table; symbolic role / datatable / rowspan / colspan /
// summary; reference decision list transcribed from the property statement.
func HarnessClassify() {
	doc := vx.ParseHTML(`<html><body><div><table role="R" datatable="D"><tbody><tr rowspan="X"><td colspan="Y">a</td><td>b</td></tr><tr><td>c</td><td>d</td></tr></tbody></table></div></body></html>`)
	t := dom.QuerySelector(doc, "table")
	tr := dom.QuerySelector(doc, "tr")
	td := dom.QuerySelector(doc, "td")
	role := vx.NondetStringIn("role", 12, "abcdefghijklmnopqrstuvwxyzGP")
	dt := vx.NondetStringIn("datatable", 1, "01")
	rs := vx.NondetStringIn("rowspan", 2, "0123456789")
	cs := vx.NondetStringIn("colspan", 2, "0123456789")
	t.Attr[0].Val, t.Attr[1].Val = role, dt
	tr.Attr[0].Val = rs
	td.Attr[0].Val = cs
	hasSummary := vx.NondetBool("summary")
	if hasSummary {
		dom.SetAttribute(t, "summary", "s")
	}

	got, _ := NewClassifier(nil).Classify(t)

	// ---- reference (features are the planted ones, not read back from the code)
	atoi := func(s string) int { // value of a (possibly empty) digit string; 0 -> 1 as span default
		n := 0
		for i := 0; i < len(s); i++ {
			n = n*10 + int(s[i]-'0')
		}
		if n == 0 {
			n = 1
		}
		return n
	}
	rows := atoi(rs) + 1
	cols := atoi(cs) + 1
	lrole := strings.ToLower(role)
	want := Data
	switch {
	case lrole == "presentation":
		want = Layout
	case lrole == "grid" || lrole == "treegrid" || lrole == "application" || lrole == "banner" || lrole == "complementary" ||
		lrole == "contentinfo" || lrole == "form" || lrole == "main" || lrole == "navigation" || lrole == "search":
		want = Data
	case dt == "0":
		want = Layout
	case rows <= 1 || cols <= 1:
		want = Layout
	case hasSummary:
		want = Data
	case cols >= 5:
		want = Data
	case rows >= 20:
		want = Data
	default: // 4 cells <= 10
		want = Layout
	}
	vx.Assert(got == want, "table classification differs from the documented cascade")
	if want == Data {
		vx.Cover("data")
	} else {
		vx.Cover("layout")
	}
}
