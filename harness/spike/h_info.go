package info

import (
	vx "github.com/markusmobius/go-domdistiller/internal/zzverif"
)

// HarnessPNS: PageNumbersState / isPageNumberSequence / LinearFormula never
// panic for any link list whose positions index into ascendingNumbers
// (the invariant established by the caller), any page numbers, any URLs.
func HarnessPNS() {
	m := vx.NondetInt("m")
	vx.Assume(m >= 2 && m <= 4)
	n := vx.NondetInt("n")
	vx.Assume(n >= 1 && n <= 3)
	var asc []*PageInfo
	for i := 0; i < 4; i++ {
		if i < m {
			asc = append(asc, &PageInfo{PageNumber: vx.NondetInt("pn"), URL: vx.NondetString("url", 4)})
		}
	}
	// ascending page numbers (caller reverses descending groups)
	for i := 0; i+1 < len(asc); i++ {
		vx.Assume(asc[i].PageNumber < asc[i+1].PageNumber)
		vx.Assume(asc[i].PageNumber >= 0 && asc[i+1].PageNumber <= 100)
	}
	var links ListLinkInfo
	for i := 0; i < 3; i++ {
		if i < n {
			pos := vx.NondetInt("pos")
			vx.Assume(pos >= 0 && pos < len(asc))
			links = append(links, &PageLinkInfo{PageNumber: vx.NondetInt("lpn"), PageParamValue: vx.NondetInt("ppv"), PosInAscendingList: pos})
		}
	}
	// positions ascend in construction order (links are added while scanning asc)
	for i := 0; i+1 < len(links); i++ {
		vx.Assume(links[i].PosInAscendingList < links[i+1].PosInAscendingList)
	}
	st := links.PageNumbersState(asc)
	if st.IsAdjacent && st.IsConsecutive {
		vx.Cover("adjacent+consecutive")
		ok := st.isPageNumberSequence(asc)
		if ok {
			vx.Cover("sequence")
			// next paging URL, when set, is the URL of one of the listed pages
			found := st.NextPagingURL == ""
			for _, a := range asc {
				if a.URL == st.NextPagingURL {
					found = true
				}
			}
			vx.Assert(found, "next URL comes from the page list")
		}
	}
	links.LinearFormula()
}
