package parser

import (
	nurl "net/url"

	"github.com/markusmobius/go-domdistiller/internal/pagination/info"
	vx "github.com/markusmobius/go-domdistiller/internal/zzverif"
)

func run(paths []string, doc *nurl.URL) (string, string, int) {
	var nums []*info.PageInfo
	for i, p := range paths {
		nums = append(nums, &info.PageInfo{PageNumber: i + 1, URL: "http://h.t/" + p})
	}
	st := newDetectionStateFromMonotonicNumbers(nums, false, doc, "")
	if st == nil || st.bestPageParamInfo == nil {
		return "", "", -1
	}
	b := st.bestPageParamInfo
	return b.PagePattern, b.NextPagingURL, len(b.AllPageInfo)
}

// HarnessDetectOrder: the detected pagination must not depend on the order in
// which Go happens to iterate the candidate-pattern map.
func HarnessDetectOrder() {
	doc, _ := nurl.Parse("http://h.t/a")
	paths := []string{
		vx.NondetStringIn("p1", 2, "a12"),
		vx.NondetStringIn("p2", 2, "a12"),
	}
	vx.MapOrderAll(true)
	a1, a2, a3 := run(paths, doc)
	b1, b2, b3 := run(paths, doc)
	vx.MapOrderAll(false)
	if a3 >= 0 {
		vx.Cover("detected")
	}
	vx.Assert(a1 == b1, "pattern depends on map order")
	vx.Assert(a2 == b2, "next URL depends on map order")
	vx.Assert(a3 == b3, "page list depends on map order")
}
