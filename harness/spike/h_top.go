package distiller

import (
	nurl "net/url"

	vx "github.com/markusmobius/go-domdistiller/internal/zzverif"
)

const page = `<html><head><title>A fairly long page title here</title></head><body>
<div class="sidebar"><a href="/x">nav link</a></div>
<div><h1>Heading words</h1><p>First paragraph with enough words to be classified as content by the classifier, twenty words are needed here so keep typing a few more words.</p>
<p>Second paragraph, also long enough to be content, with a <a href="/rel">relative link</a> and more text to pad it out to the threshold we need.</p>
<figure><noscript><img src="real.png"></noscript><img data-src="lazy.png" src="data:image/gif;base64,R0lGOD"><figcaption>cap <a href="/c">t</a></figcaption></figure><picture><source srcset="s.png 1x"><span>x</span></picture><p><font color="red">fonted words here</font> and <a href="javascript:void(0)">js link</a> tail</p><iframe src="https://www.youtube.com/embed/abc123"></iframe><ul><li>one item</li><li>two item</li></ul>
<a href="/a?page=2">2</a> <a href="/a?page=3">3</a></div></body></html>`

func HarnessApply() {
	doc := vx.ParseHTML(page)
	u, _ := nurl.Parse("http://h.t/a?page=1")
	opts := &Options{OriginalURL: u}
	flags := vx.NondetInt("flags")
	vx.Assume(flags >= 0 && flags <= 31)
	opts.LogFlags = LogFlag(flags)
	opts.SkipPagination = vx.NondetBool("skip")
	if vx.NondetBool("algo") {
		opts.PaginationAlgo = PageNumber
	}
	vx.Freeze(doc, opts, u)
	res, err := Apply(doc, opts)
	vx.Thaw()
	vx.Assert(err == nil && res != nil && res.Node != nil, "result well formed")
	vx.Cover("apply")
	println(res.Title, res.WordCount, len(res.Text), res.PaginationInfo.NextPage)
}
