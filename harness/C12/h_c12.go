package distiller

import (
	nurl "net/url"
	"strings"
	"sync"

	"github.com/go-shiori/dom"
	vx "github.com/markusmobius/go-domdistiller/internal/zzverif"
	"golang.org/x/net/html"
)

func zzKey12(r *Result) string {
	if r == nil {
		return "<nil>"
	}
	return strings.Join([]string{r.Title, r.Text, dom.OuterHTML(r.Node), strings.Join(r.ContentImages, "|"), r.URL,
		r.PaginationInfo.NextPage, r.PaginationInfo.PrevPage, r.MarkupInfo.Title, r.MarkupInfo.Type, r.MarkupInfo.Author}, "\x00")
}

var zzURLs12 = []string{"http://h.t/a?page=2", "http://h.t/story/2/", "http://h.t/plain/", "http://h.t/list?cat=2&page=2", "http://h.t/archive?page=2", "http://h.t/x/2"}

// HarnessC12Interference decides the non-interference condition that makes
// concurrent calls safe: a call (i) writes no package-level state, (ii)
// writes nothing reachable from the shared document, Options or URL, and
// (iii) returns its solo result when other calls ran before it on shared
// inputs. Under the engine the calls are run back to back with the write-set
// monitors on; natively (replay) the same calls run in 8 goroutines under the
// race detector.
func HarnessC12Interference() {
	pi := vx.Choose("page", len(vx.Pages))
	pj := vx.Choose("other", len(vx.Pages))
	flags := []LogFlag{0, LogEverything, LogPagination}[vx.Choose("flags", 3)]
	algo := PaginationAlgo(vx.Choose("algo", 2))
	mk := func(i int) *Options {
		u, _ := nurl.Parse(zzURLs12[i])
		return &Options{LogFlags: flags, PaginationAlgo: algo, OriginalURL: u}
	}
	if vx.Symbolic() {
		// the monitor for package-level state is on from the very first call of
		// the process (lazily built tables are written by whoever comes first)
		vx.GlobalWrites(true)
		soloI, _ := Apply(vx.ParseHTML(vx.Pages[pi]), mk(pi))
		soloJ, _ := Apply(vx.ParseHTML(vx.Pages[pj]), mk(pj))
		kI, kJ := zzKey12(soloI), zzKey12(soloJ)
		shared := vx.ParseHTML(vx.Pages[pi])
		sharedOpts := mk(pi)
		otherDoc := vx.ParseHTML(vx.Pages[pj])
		otherOpts := mk(pj)
		vx.Freeze(shared, sharedOpts, sharedOpts.OriginalURL, otherDoc, otherOpts)
		r1, _ := Apply(shared, sharedOpts)
		r2, _ := Apply(otherDoc, otherOpts)
		r3, _ := Apply(shared, sharedOpts)
		vx.Thaw()
		vx.GlobalWrites(false)
		vx.Assert(zzKey12(r1) == kI, "call on the shared document differs from its solo result")
		vx.Assert(zzKey12(r2) == kJ, "call on another document differs from its solo result")
		vx.Assert(zzKey12(r3) == kI, "second call on the shared document differs from its solo result")
		vx.Cover("interference")
		return
	}
	// natively: a cold start -- the concurrent calls are the first calls of the
	// process; the solo references are computed afterwards
	shared := vx.ParseHTML(vx.Pages[pi])
	sharedOpts := mk(pi)
	otherDoc := vx.ParseHTML(vx.Pages[pj])
	otherOpts := mk(pj)
	var wg sync.WaitGroup
	var mu sync.Mutex
	gotI, gotJ := map[string]bool{}, map[string]bool{}
	run := func(doc *html.Node, o *Options, got map[string]bool) {
		defer wg.Done()
		for n := 0; n < 12; n++ {
			r, _ := Apply(doc, o)
			k := zzKey12(r)
			mu.Lock()
			got[k] = true
			mu.Unlock()
		}
	}
	for g := 0; g < 4; g++ {
		wg.Add(2)
		go run(shared, sharedOpts, gotI)
		go run(otherDoc, otherOpts, gotJ)
	}
	wg.Wait()
	soloI, _ := Apply(vx.ParseHTML(vx.Pages[pi]), mk(pi))
	soloJ, _ := Apply(vx.ParseHTML(vx.Pages[pj]), mk(pj))
	bad := len(gotI) != 1 || !gotI[zzKey12(soloI)] || len(gotJ) != 1 || !gotJ[zzKey12(soloJ)]
	vx.Assert(!bad, "call on the shared document differs from its solo result")
}
