package distiller

import (
	nurl "net/url"
	"strings"

	"github.com/go-shiori/dom"
	vx "github.com/markusmobius/go-domdistiller/internal/zzverif"
	"golang.org/x/net/html"
)

// zzSnapTree serialises a whole tree: node kinds, names, attributes, text and
// all five links of every node (as preorder numbers), so any change of
// structure, order, names, attributes or text changes the string.
func zzSnapTree(root *html.Node) string {
	for root.Parent != nil {
		root = root.Parent
	}
	ids := map[*html.Node]int{}
	var order []*html.Node
	var walk func(n *html.Node)
	walk = func(n *html.Node) {
		ids[n] = len(order) + 1
		order = append(order, n)
		for c := n.FirstChild; c != nil; c = c.NextSibling {
			walk(c)
		}
	}
	walk(root)
	id := func(n *html.Node) string {
		if n == nil {
			return "-"
		}
		if v, ok := ids[n]; ok {
			return string(rune('0'+v/100)) + string(rune('0'+v/10%10)) + string(rune('0'+v%10))
		}
		return "?"
	}
	var sb strings.Builder
	for _, n := range order {
		sb.WriteString(id(n) + ":" + string(rune('0'+int(n.Type))) + ":" + n.Data + ":" + n.Namespace + "[")
		for _, a := range n.Attr {
			sb.WriteString(a.Namespace + "|" + a.Key + "=" + a.Val + ";")
		}
		sb.WriteString("]" + id(n.Parent) + id(n.FirstChild) + id(n.LastChild) + id(n.PrevSibling) + id(n.NextSibling) + "\n")
	}
	return sb.String()
}

func zzSnapURL(u *nurl.URL) string {
	if u == nil {
		return "<nil>"
	}
	b := func(x bool) string {
		if x {
			return "1"
		}
		return "0"
	}
	user := "<nil>"
	if u.User != nil {
		user = u.User.String()
	}
	return u.Scheme + "|" + u.Opaque + "|" + user + "|" + u.Host + "|" + u.Path + "|" + u.RawPath + "|" + b(u.OmitHost) + b(u.ForceQuery) + "|" + u.RawQuery + "|" + u.Fragment + "|" + u.RawFragment
}

func zzSnapOpts(o *Options) string {
	if o == nil {
		return "<nil>"
	}
	s := "skip=0"
	if o.SkipPagination {
		s = "skip=1"
	}
	fl := int(o.LogFlags)
	return s + ";algo=" + string(rune('0'+int(o.PaginationAlgo))) + ";flags=" + string(rune('0'+fl/10)) + string(rune('0'+fl%10))
}

var zzURLs = []string{"http://h.t/a?page=2", "http://h.t/story/2/", "https://h.t/dir/page.html#frag", "http://h.t", "/relative/only/", "//h.t/story/2", "page.html?p=2", "http://user:pw@h.t/a/b?page=2",
	// paths whose escaped form is not the canonical one (RawPath is set) (round k)
	"http://h.t/a%2Fb/2", "http://h.t/caf%c3%a9/page/2"}

func zzOpts() (*Options, *nurl.URL) { return zzOptsOf(false) }

// zzOptsOf(small): the reduced menu (no flags or everything; no URL, a plain
// one, one with userinfo) used where another dimension is being swept
func zzOptsOf(small bool) (*Options, *nurl.URL) {
	if small {
		o := &Options{}
		o.LogFlags = []LogFlag{0, LogEverything}[vx.Choose("flags", 2)]
		o.SkipPagination = vx.NondetBool("skip")
		if vx.NondetBool("algo") {
			o.PaginationAlgo = PageNumber
		}
		var u *nurl.URL
		if k := vx.Choose("url", 3); k > 0 {
			u, _ = nurl.Parse([]string{zzURLs[0], zzURLs[7]}[k-1])
			o.OriginalURL = u
		}
		return o, u
	}
	if vx.Choose("optsnil", 4) == 0 {
		return nil, nil
	}
	o := &Options{}
	o.LogFlags = []LogFlag{0, LogEverything, LogPagination, LogVisibility | LogExtraction}[vx.Choose("flags", 4)]
	o.SkipPagination = vx.NondetBool("skip")
	if vx.NondetBool("algo") {
		o.PaginationAlgo = PageNumber
	}
	var u *nurl.URL
	if k := vx.Choose("url", len(zzURLs)+1); k > 0 {
		u, _ = nurl.Parse(zzURLs[k-1])
		o.OriginalURL = u
	}
	return o, u
}

func zzResultKey(r *Result) string {
	if r == nil {
		return "<nil>"
	}
	return r.Title + "\x00" + r.Text + "\x00" + dom.OuterHTML(r.Node) + "\x00" + strings.Join(r.ContentImages, "|") + "\x00" + r.URL + "\x00" + r.PaginationInfo.NextPage + "\x00" + r.PaginationInfo.PrevPage
}

// HarnessC10Apply: Apply on a document node, the html element, body, or an
// inner element, with every option combination. Nothing reachable from the
// arguments may be written (engine write-set monitor), the tree, the Options
// and the URL are identical afterwards (snapshot comparison, also natively),
// and a second call with the same values gives the same result.
func HarnessC10Apply() {
	page := vx.Pages[vx.Choose("page", len(vx.Pages))]
	doc := vx.ParseHTML(page)
	root := doc
	rootKind := vx.Choose("root", 7)
	switch rootKind {
	case 6: // a hand-assembled document node with several top-level elements (as html.ParseFragment callers build)
		d := &html.Node{Type: html.DocumentNode}
		body := dom.QuerySelector(doc, "body")
		for c := body.FirstChild; c != nil; {
			next := c.NextSibling
			if c.Type == html.ElementNode {
				body.RemoveChild(c)
				d.AppendChild(c)
			}
			c = next
		}
		doc, root = d, d
	case 1:
		root = dom.QuerySelector(doc, "html")
	case 2:
		root = dom.QuerySelector(doc, "body")
	case 3:
		root = dom.QuerySelector(doc, "body > div, body > table")
	case 4: // an inline element deep inside the tree: a javascript: anchor, else a link
		root = dom.QuerySelector(doc, `a[href^="javascript:"]`)
		if root == nil {
			root = dom.QuerySelector(doc, "p a, div a")
		}
	case 5: // a structural inner element
		root = dom.QuerySelector(doc, "figure, td, li, p")
	}
	vx.Assume(root != nil)
	opts, u := zzOptsOf(rootKind >= 4)
	t0, o0, u0 := zzSnapTree(doc), zzSnapOpts(opts), zzSnapURL(u)
	if opts != nil {
		vx.Freeze(doc, opts, u)
	} else {
		vx.Freeze(doc)
	}
	r1, err := Apply(root, opts)
	vx.Thaw()
	vx.Assert(err == nil && r1 != nil, "Apply failed")
	vx.Cover("apply")
	vx.Assert(zzSnapTree(doc) == t0, "Apply modified the caller's node tree")
	vx.Assert(zzSnapOpts(opts) == o0, "Apply modified the caller's Options")
	vx.Assert(zzSnapURL(u) == u0, "Apply modified the caller's URL")
	r2, _ := Apply(root, opts)
	vx.Assert(zzResultKey(r1) == zzResultKey(r2), "second call with the same tree and Options gives a different result")
	vx.Assert(zzSnapTree(doc) == t0 && zzSnapOpts(opts) == o0 && zzSnapURL(u) == u0, "second Apply modified the caller's arguments")
}

// HarnessC10Reader: ApplyForReader, ApplyForFile and ApplyForURL leave the
// Options value and the URL it points to unchanged.
func HarnessC10Reader() {
	page := vx.Pages[vx.Choose("page", len(vx.Pages))]
	opts, u := zzOpts()
	o0, u0 := zzSnapOpts(opts), zzSnapURL(u)
	entry := vx.Choose("entry", 3)
	if opts != nil {
		vx.Freeze(opts, u)
	}
	var err error
	var res *Result
	what := ""
	switch entry {
	case 0:
		what = "ApplyForReader"
		res, err = ApplyForReader(strings.NewReader(page), opts)
	case 1:
		what = "ApplyForFile"
		path, done := vx.TempFile(page)
		res, err = ApplyForFile(path, opts)
		done()
	case 2:
		what = "ApplyForURL"
		url, done := vx.ServeHTML(page)
		res, err = ApplyForURL(url, 0, opts)
		done()
		if res != nil {
			vx.Assert(strings.HasPrefix(res.URL, "http://127.0.0.1"), "ApplyForURL does not use the fetched address as page URL")
		}
	}
	vx.Thaw()
	vx.Cover(what)
	vx.Assert(err == nil && res != nil, what+" failed")
	vx.Assert(zzSnapOpts(opts) == o0, what+" modified the caller's Options")
	vx.Assert(zzSnapURL(u) == u0, what+" modified the URL the caller's Options point to")
	if opts != nil {
		vx.Assert(opts.OriginalURL == u, what+" replaced Options.OriginalURL in the caller's Options")
	}
}
