package extractor

import (
	nurl "net/url"
	"strings"

	"github.com/go-shiori/dom"
	"github.com/markusmobius/go-domdistiller/internal/converter"
	"github.com/markusmobius/go-domdistiller/internal/stringutil"
	"github.com/markusmobius/go-domdistiller/internal/webdoc"
	vx "github.com/markusmobius/go-domdistiller/internal/zzverif"
	"golang.org/x/net/html"
)

var c06Refs = []string{"rel/x.png", "/root.png", "//c.t/s.png", "?q=1", "../up.png", "./dot.png", "#frag", "data:image/gif;base64,R0", "javascript:void(0)", "http://o.t/abs.png", "%zz", "w_300,c_fill/a.jpg", "/web/2020/http://o.t/x.png", "share?u=https://o.t/x"}

// every URL-carrying attribute of every content kind; REF is the reference
var c06Carriers = []string{
	`<p>alpha <a href="REF">beta</a> gamma</p>`,
	`<p>alpha</p><img src="REF">`,
	`<p>alpha</p><img src="i.png" srcset="REF 1x, second.png 2x">`,
	`<p>alpha</p><picture><source srcset="REF 2x"><img src="p.png"></picture>`,
	// fractional density and width descriptors (round k)
	`<p>alpha</p><img src="i.png" srcset="REF 1.5x, second.png 2.25x"><img src="REF" srcset="second.png 0.5x, REF 640w">`,
	`<p>alpha</p><figure><img src="REF"><figcaption>capt <a href="REF">l</a></figcaption></figure>`,
	`<p>alpha</p><video src="REF" poster="REF"><source src="REF"><track src="REF"></video>`,
	`<p>alpha</p><video poster="REF"><source src="REF"></video>`,
	`<p>alpha</p><table><thead><tr><th>h</th><th>h</th></tr></thead><tbody><tr><td><a href="REF">l</a><img src="REF" srcset="REF 1x"></td><td><video src="REF" poster="REF"></video></td></tr></tbody></table>`,
	`<ul><li>item <a href="REF">link</a></li></ul>`,
	`<blockquote><a href="REF">quoted link</a> words</blockquote>`,
	`<h2><a href="REF"><span>alpha</span></a></h2>`,
	`<p><a href="REF"><b>alpha</b> <i>beta</i></a></p>`,
	`<div><span><a href="REF">alpha</a></span></div>`,
	`<p>alpha beta<a href="REF">*</a> gamma <a href="REF"><img src="REF"></a></p>`,
}

// c06Counter: an arbitrary word counter (real counters give 0 for texts made
// of symbols only, so 0 is possible for any text)
type c06Counter struct{ memo map[string]int }

func (c *c06Counter) Count(s string) int {
	if n, ok := c.memo[s]; ok {
		return n
	}
	n := 0
	if strings.TrimSpace(s) != "" {
		n = vx.NondetInt("wc", 0, 40)
	}
	c.memo[s] = n
	return n
}

func c06Collect(n *html.Node, into *[]string) {
	if n.Type == html.ElementNode {
		for _, a := range n.Attr {
			switch a.Key {
			case "href", "src", "poster":
				*into = append(*into, a.Key+"="+a.Val)
			case "srcset":
				for _, cand := range strings.Split(a.Val, ", ") {
					f := strings.Fields(cand)
					if len(f) > 0 {
						*into = append(*into, "srcset="+f[0])
					}
				}
			}
		}
	}
	for c := n.FirstChild; c != nil; c = c.NextSibling {
		c06Collect(c, into)
	}
}

// HarnessC06Output: every URL attribute of every content kind carries the same
// reference (menu of relative-reference forms); with a page URL, every URL in
// the distilled HTML and every ContentImages entry equals that reference
// resolved against the page URL (or the untouched reference for the
// pass-through classes). Everything is forced to be content.
func HarnessC06Output() {
	ref := c06Refs[vx.Choose("ref", len(c06Refs))]
	carrier := c06Carriers[vx.Choose("carrier", len(c06Carriers))]
	pageURL, _ := nurl.Parse([]string{"http://h.t/dir/page.html", "http://h.t/dir/sub/", "https://h.t"}[vx.Choose("pageurl", 3)])
	want := stringutil.CreateAbsoluteURL(ref, pageURL)
	doc := vx.ParseHTML("<html><head><title>T</title></head><body><div>" + strings.ReplaceAll(carrier, "REF", ref) + "</div></body></html>")
	b := webdoc.NewWebDocumentBuilder(&c06Counter{memo: map[string]int{}}, pageURL)
	converter.NewDomConverter(converter.Default, b, pageURL, nil).Convert(dom.QuerySelector(doc, "html"))
	wd := b.Build()
	for _, e := range wd.Elements {
		e.SetIsContent(true)
	}
	out := wd.GenerateOutput(false)
	od := vx.ParseHTML("<html><body>" + out + "</body></html>")
	var urls []string
	c06Collect(dom.QuerySelector(od, "body"), &urls)
	fixed := map[string]bool{"i.png": true, "second.png": true, "p.png": true}
	n := 0
	for _, kv := range urls {
		i := strings.Index(kv, "=")
		attr, v := kv[:i], kv[i+1:]
		base := v[strings.LastIndex(v, "/")+1:]
		if fixed[base] {
			vx.Assert(strings.HasPrefix(v, "http"), "auxiliary "+attr+" is not absolute")
			continue
		}
		n++
		vx.Assert(v == want, attr+" in the distilled HTML is not the reference resolved against the page URL (carrier: "+carrier+")")
	}
	if n > 0 {
		vx.Cover("urls")
	}
	for _, v := range wd.GetImageURLs() {
		base := v[strings.LastIndex(v, "/")+1:]
		if fixed[base] {
			continue
		}
		vx.Cover("images")
		vx.Assert(v == want, "ContentImages entry is not the reference resolved against the page URL (carrier: "+carrier+")")
	}
}
