package stringutil

import (
	nurl "net/url"
	"strings"

	vx "github.com/markusmobius/go-domdistiller/internal/zzverif"
)

// HarnessC06AbsURL: CreateAbsoluteURL on references made of a head from the
// menu of reference forms and an arbitrary tail, against a base with an
// arbitrary path; net/url (Parse, ParseRequestURI, ResolveReference, String)
// is interpreted, not modelled. Pass-through classes are returned unchanged;
// every other result is absolute, stays on the right host and is a fixed point.
func HarnessC06AbsURL() {
	heads := []string{"", "#", "?", "/", "//c.t/", "../", "./", "data:", "javascript:", "http://o.t/", "https://o.t", "%zz", "mailto:", "a b", "HTTP://O.T/", "p?u=http://o.t/", "/w/http://o.t/"}
	hi := vx.Choose("head", len(heads))
	head := heads[hi]
	tail := vx.NondetStringIn("tail", vx.Param("tail", 3), "ab/.?#=:")
	ref := head + tail
	bpath := vx.NondetStringIn("basepath", vx.Param("basepath", 3), "d/.p")
	base, err := nurl.Parse("http://h.t/" + bpath + []string{"", "?x=1"}[vx.Choose("basequery", 2)])
	vx.Assume(err == nil)
	got := CreateAbsoluteURL(ref, base)
	if ref == "" || strings.HasPrefix(ref, "#") || strings.HasPrefix(ref, "data:") || strings.HasPrefix(ref, "javascript:") {
		vx.Cover("pass")
		vx.Assert(got == ref, "fragment-only/data:/javascript:/empty reference is not passed through unchanged")
		return
	}
	if hi == 9 || hi == 10 || hi == 14 {
		// already absolute: scheme and non-empty host
		if pu, perr := nurl.ParseRequestURI(ref); perr == nil && pu.Scheme != "" && pu.Hostname() != "" {
			vx.Cover("absolute")
			vx.Assert(got == ref, "already-absolute URL is not passed through unchanged")
		}
		return
	}
	ru, perr := nurl.Parse(ref)
	if perr != nil {
		vx.Cover("unparseable")
		vx.Assert(got == ref, "unparseable reference is not passed through unchanged")
		return
	}
	if ru.Scheme != "" {
		return // mailto:, "a:..." tails etc.: other absolute schemes, statement silent
	}
	vx.Cover("resolved")
	u, err2 := nurl.Parse(got)
	vx.Assert(err2 == nil, "resolved URL does not parse")
	if err2 != nil {
		return
	}
	vx.Assert(u.Scheme == "http", "resolved URL does not have the page URL's scheme")
	if ru.Host == "" {
		vx.Assert(u.Host == "h.t", "path/query-relative reference does not resolve to the page URL's host")
	} else {
		vx.Assert(u.Host == ru.Host, "scheme-relative reference does not keep its own host")
	}
	vx.Assert(got == base.ResolveReference(ru).String(), "result is not the reference resolved against the page URL")
	vx.Assert(CreateAbsoluteURL(got, base) == got, "resolved URL is not a fixed point")
}
