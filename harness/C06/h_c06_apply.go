package distiller

import (
	nurl "net/url"
	"strings"

	"github.com/markusmobius/go-domdistiller/internal/stringutil"
	vx "github.com/markusmobius/go-domdistiller/internal/zzverif"
	"golang.org/x/net/html"
)

const c06Long = "This is the article body with enough words to be classified as content by the classifier so keep typing a few more words here and there until it is long enough."

func c06Walk(n *html.Node, into *[]string) {
	if n.Type == html.ElementNode {
		for _, a := range n.Attr {
			switch a.Key {
			case "href", "src", "poster":
				*into = append(*into, a.Key+"="+a.Val)
			case "srcset":
				for _, cand := range strings.Split(a.Val, ", ") {
					if f := strings.Fields(cand); len(f) > 0 {
						*into = append(*into, "srcset="+f[0])
					}
				}
			}
		}
	}
	for c := n.FirstChild; c != nil; c = c.NextSibling {
		c06Walk(c, into)
	}
}

// HarnessC06Apply: the property on the public result. With a page URL in
// Options, every URL of Result.Node and of ContentImages is the reference of
// the source resolved against exactly that page URL (directory-style URLs
// with a trailing slash, dot segments, fragments and queries in the page URL;
// path-relative, dot-relative, query-only, root-relative references and
// references that embed another absolute URL).
func HarnessC06Apply() {
	pu := []string{"http://h.t/dir/sub/", "http://h.t/dir/page.html#frag", "http://h.t/a/../b/./c/", "http://h.t", "http://h.t/dir/page?x=/y/"}[vx.Choose("pageurl", 5)]
	ref := []string{"rel/x.png", "./dot.png", "../up.png", "?q=1", "/root.png", "/web/2020/http://o.t/x.png", "share?u=https://o.t/x"}[vx.Choose("ref", 7)]
	page := `<html><head><title>Title</title></head><body><p>` + c06Long + ` <a href="REF">link words</a></p>` +
		`<img src="REF"><figure><img src="REF" srcset="REF 1x"><figcaption>capt <a href="REF">l</a></figcaption></figure>` +
		`<video src="REF" poster="REF"><source src="REF"></video>` +
		`<table><thead><tr><th>h</th><th>h</th></tr></thead><tbody><tr><td><a href="REF">l</a></td><td><img src="REF"></td></tr></tbody></table>` +
		`<p>` + c06Long + `</p></body></html>`
	u, _ := nurl.Parse(pu)
	// every reference of the menu is a relative reference that net/url can
	// parse: the expected value is RFC 3986 resolution, computed here with
	// net/url and not with the library's own helper
	pr, perr := nurl.Parse(ref)
	vx.Assume(perr == nil)
	want := u.ResolveReference(pr).String()
	vx.Assert(stringutil.CreateAbsoluteURL(ref, u) == want, "CreateAbsoluteURL is not RFC 3986 resolution for a relative reference")
	r, err := Apply(vx.ParseHTML(strings.ReplaceAll(page, "REF", ref)), &Options{OriginalURL: u, SkipPagination: true})
	vx.Assert(err == nil && r != nil && r.Node != nil, "Apply failed")
	if r == nil || r.Node == nil {
		return
	}
	var urls []string
	c06Walk(r.Node, &urls)
	for _, kv := range urls {
		i := strings.Index(kv, "=")
		vx.Assert(kv[i+1:] == want, kv[:i]+" in Result.Node is not the reference resolved against the page URL given in Options")
	}
	if len(urls) >= 8 {
		vx.Cover("urls")
	}
	for _, v := range r.ContentImages {
		vx.Cover("images")
		vx.Assert(v == want, "ContentImages entry is not the reference resolved against the page URL given in Options")
	}
}
