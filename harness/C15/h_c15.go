package extractor

import (
	"strings"

	"github.com/go-shiori/dom"
	"github.com/markusmobius/go-domdistiller/internal/converter"
	"github.com/markusmobius/go-domdistiller/internal/domutil"
	"github.com/markusmobius/go-domdistiller/internal/stringutil"
	vx "github.com/markusmobius/go-domdistiller/internal/zzverif"
)

// c15Any answers every word-count question with an arbitrary number.
type c15Any struct{ max int }

func (c c15Any) Count(s string) int { return vx.NondetInt("wc", 0, c.max) }

func c15Norm(s string) string { return strings.Join(strings.Fields(s), " ") }

// HarnessC15NoInvention: arbitrary <title> bytes over separators, colons and
// letters, optional <h1>, arbitrary word counts: the document title is a
// contiguous part of the <title> text (raw or whitespace-normalised) or the
// text of the first <h1>.
func HarnessC15NoInvention() {
	h1 := []string{"", "<h1>ab a</h1>", "<h1> b  a </h1><h1>zz</h1>", "<h2>an h2 heading of five words</h2>", "<h2>an h2 heading of five words</h2><h1>ab a</h1>"}[vx.Choose("h1", 5)]
	doc := vx.ParseHTML(`<html><head><title>X</title></head><body>` + h1 + `<p>b</p></body></html>`)
	t := dom.QuerySelector(doc, "title")
	title := vx.NondetStringIn("title", vx.Param("title", 5), "a -|:/>")
	t.FirstChild.Data = title
	raw := domutil.InnerText(t)
	got := getDocumentTitle(dom.QuerySelector(doc, "html"), c15Any{8})
	vx.Cover("ran")
	h1Text := ""
	if h := dom.QuerySelector(doc, "h1"); h != nil {
		h1Text = c15Norm(domutil.InnerText(h))
	}
	ok := strings.Contains(raw, got) || strings.Contains(c15Norm(raw), got)
	if h1Text != "" && got == h1Text {
		ok = true
		vx.Cover("h1")
	}
	vx.Assert(ok, "document title is neither a contiguous part of the <title> text nor the first <h1>")
}

// HarnessC15Exact: a <title> of 15..150 characters without separator pattern
// and without colon is returned exactly (whitespace-normalised), whatever
// headings exist and whatever the word counts are.
func HarnessC15Exact() {
	var title string
	form := vx.Choose("form", 5)
	switch form {
	case 4:
		// five words and a last character that also occurs in separators, but no separator pattern
		title = "Alpha beta gamma delta omega" + []string{" »", " ->", " |", " -", "/", ">", " :", " — x"}[vx.Choose("suffix", 8)]
	case 0, 1:
		// three letter-only words (arbitrary letters) joined by single blanks;
		// total length n
		n := []int{15, 16, 24}[vx.Choose("len", 3)]
		if vx.Param("long", 0) == 1 {
			n = []int{15, 40, 150}[vx.Choose("len2", 3)]
		}
		l1 := 1 + vx.Choose("w1", 3)
		l2 := 1 + vx.Choose("w2", 3)
		l3 := n - 2 - l1 - l2
		word := func(name string, l int) string {
			w := vx.NondetStringIn(name, l, "abZ")
			vx.Assume(len(w) == l)
			return w
		}
		title = word("word1", l1) + " " + word("word2", l2) + " " + word("word3", l3)
		if form == 1 {
			title = " " + title + "  "
		}
	case 2:
		title = strings.Repeat("я", 90) // 90 characters, 180 bytes
	case 3:
		title = strings.Repeat("wé ", 49) + "end" // 150 characters
	}
	h1 := []string{"", "<h1>Another heading text with five words</h1>"}[vx.Choose("h1", 2)]
	doc := vx.ParseHTML(`<html><head><title>X</title></head><body>` + h1 + `<p>b</p></body></html>`)
	dom.QuerySelector(doc, "title").FirstChild.Data = title
	var wc stringutil.WordCounter = c15Any{200}
	got := getDocumentTitle(dom.QuerySelector(doc, "html"), wc)
	vx.Cover("exact")
	vx.Assert(got == c15Norm(title), "a 15..150 character <title> without separators is not returned as the title")
}

type c15Words struct{}

func (c15Words) Count(s string) int { return len(strings.Fields(s)) }

// HarnessC15Markup: when a markup source supplies a title it is the title.
func HarnessC15Markup() {
	head := `<title>Document title text - Site</title>`
	want := ""
	switch vx.Choose("markup", 4) {
	case 0:
		head += `<meta property="og:title" content="OG Title Here"><meta property="og:type" content="article"><meta property="og:url" content="http://h.t/a"><meta property="og:image" content="http://h.t/i.png">`
		want = "OG Title Here"
	case 1:
		head += `<meta name="title" content="IE title here">`
		want = "IE title here"
	case 2:
		want = "Schema headline"
	case 3:
		head += `<meta property="og:title" content="OG without required">`
	}
	body := `<h1>Heading of page</h1><p>text</p>`
	if want == "Schema headline" {
		body = `<div itemscope itemtype="http://schema.org/Article"><h2 itemprop="headline">Schema headline</h2></div>` + body
	}
	doc := vx.ParseHTML(`<html><head>` + head + `</head><body>` + body + `</body></html>`)
	ce := NewContentExtractor(dom.QuerySelector(doc, "html"), nil, nil)
	if vx.Choose("order", 2) == 1 {
		ce.ExtractContent() // the order of distiller.Apply: content first, then the title
	}
	got := ce.ExtractTitle()
	if want != "" {
		vx.Cover("markup")
		vx.Assert(got == want, "Title is not the markup title although MarkupInfo supplies one")
	} else {
		vx.Cover("no-markup")
		vx.Assert(strings.Contains("Document title text - Site", got) && got != "", "without markup title the title must come from <title>")
	}
}

// HarnessC15NotRepeated: title shapes x forms of a block repeating the title
// text; after classification every element is forced to be content: the text
// of the title must not be emitted inside the distilled content.
func HarnessC15NotRepeated() {
	shapes := [][2]string{ // <title> text, expected-title text repeated in the page
		{"Alpha Beta Gamma Delta", "Alpha Beta Gamma Delta"},
		{"Alpha Beta Gamma Delta - Site", "Alpha Beta Gamma Delta"},
		{"Alpha Beta Gamma Delta | Site", "Alpha Beta Gamma Delta"},
		{"Site: Alpha Beta Gamma Delta", "Alpha Beta Gamma Delta"},
		{"Alpha Beta Gamma - Section - Site", "Alpha Beta Gamma - Section - Site"},
		{"Alpha's Beta Gamma Delta!", "Alpha's Beta Gamma Delta!"},
	}
	sh := shapes[vx.Choose("shape", len(shapes))]
	rep := sh[1]
	switch vx.Choose("spacing", 3) {
	case 1:
		rep = strings.ReplaceAll(rep, " ", " ")
	case 2:
		rep = "  " + strings.ReplaceAll(rep, " ", "  ") + " "
	}
	block := []string{"<h1>%s</h1>", "<h2>%s</h2>", "<p>%s</p>", "<div><b>%s</b></div>"}[vx.Choose("block", 4)]
	// inline markup inside the repeated title, also in the middle of a word
	switch vx.Choose("inline", 4) {
	case 1:
		rep = strings.Replace(rep, "Alpha", "Al<b>pha</b>", 1)
	case 2:
		rep = strings.Replace(rep, "Alpha", "<span>A</span>lpha", 1)
	case 3:
		rep = strings.Replace(rep, "Beta", "<em>Beta</em>", 1)
	}
	block = strings.Replace(block, "%s", rep, 1)
	para := `<p>` + strings.Repeat("filler words for the article body ", 8) + `</p>`
	headTitle := sh[0]
	meta := ""
	if vx.Choose("markuptitle", 2) == 1 {
		// the title comes from markup (og:title, possibly with NBSP inside); <title> differs
		mt := sh[1]
		if vx.Choose("mtnbsp", 2) == 1 {
			mt = strings.Replace(mt, " ", "&nbsp;", 1)
		}
		meta = `<meta property="og:title" content="` + strings.ReplaceAll(mt, `'`, "&#39;") + `"><meta property="og:type" content="article"><meta property="og:url" content="http://h.t/a"><meta property="og:image" content="http://h.t/i.png">`
		headTitle = "Some other window title"
	}
	doc := vx.ParseHTML(`<html><head><title>` + headTitle + `</title>` + meta + `</head><body><div>` + block + para + para + `</div></body></html>`)
	ce := NewContentExtractor(dom.QuerySelector(doc, "html"), nil, nil)
	ce.WordCounter = c15Words{}
	title := ce.ExtractTitle()
	wd := ce.createWebDocumentInfoFromPage(converter.Default)
	ce.processDocument(wd)
	for _, e := range wd.Elements {
		e.SetIsContent(true)
	}
	text := c15Norm(strings.ReplaceAll(wd.GenerateOutput(true), " ", " "))
	vx.Cover("title")
	if c15Norm(sh[1]) == c15Norm(strings.ReplaceAll(title, " ", " ")) {
		title = c15Norm(strings.ReplaceAll(title, " ", " "))
		vx.Cover("title-is-block")
		vx.Assert(!strings.Contains(text, title), "the block whose text is the title is emitted again in the content (title '"+title+"')")
	}
}
