package embed

import (
	"strings"

	"github.com/go-shiori/dom"
	"github.com/markusmobius/go-domdistiller/internal/webdoc"
	vx "github.com/markusmobius/go-domdistiller/internal/zzverif"
	"golang.org/x/net/html"
)

var c19Hosts = []string{"youtube.com", "youtube-nocookie.com", "player.vimeo.com", "twitter.com", "vimeo.com", "youtube.com.evil.net", "evil.net"}

// c19URL builds a source URL from parts, so the harness knows its host, and
// returns the URL, the host and the identifier the statement demands (last
// non-empty path segment; "" when that segment is the keyword).
func c19URL(keyword string) (u, host, id string) {
	scheme, pre, base, user := "https://", "", c19Hosts[0], ""
	s1, s2, trail, query := keyword, "abc", "", ""
	nopath := false
	nq := 4
	if keyword == "embed" {
		nq = 5 // "&t=1": the wrong syntax only the YouTube extractor repairs
	}
	segMenu := func(name string) string {
		switch vx.Choose(name, 5) {
		case 0:
			return ""
		case 1:
			return keyword
		case 2:
			return "v"
		case 3:
			return "youtube.com"
		}
		return []string{"abc", "Z_9-k"}[vx.Choose(name+"id", 2)]
	}
	if vx.Choose("slice", 2) == 0 {
		// authority slice: every scheme, host prefix, host, userinfo
		scheme = []string{"https://", "http://", "//", "", "/"}[vx.Choose("scheme", 5)]
		pre = vx.NondetStringIn("hostprefix", vx.Param("prefix", 2), "w.-")
		base = c19Hosts[vx.Choose("host", len(c19Hosts))]
		user = []string{"", "youtube.com@", "www.twitter.com:x@", "player.vimeo.com@", "www.youtube.com&v=abc@", "player.vimeo.com&video=1:p@"}[vx.Choose("user", 6)]
		if vx.Choose("short", 2) == 1 {
			s1 = "" // path "//abc": one identifier segment only
		}
	} else {
		// path/query slice on an allow-listed host of each service and on a foreign one
		base = []string{"youtube.com", "player.vimeo.com", "twitter.com", "evil.net"}[vx.Choose("host2", 4)]
		pre = []string{"", "www."}[vx.Choose("www", 2)]
		s1, s2 = segMenu("seg1"), segMenu("seg2")
		trail = []string{"", "/"}[vx.Choose("trail", 2)]
		nopath = vx.Choose("nopath", 4) == 0
		query = []string{"", "?a=1", "?u=https://www.youtube.com/embed/x", "?h=player.vimeo.com", "&t=1"}[vx.Choose("query", nq)]
	}
	host = pre + base
	if scheme == "" || scheme == "/" {
		defer func() { host = "" }() // relative reference: no host; nothing may be accepted
	}
	path := "/" + s1 + "/" + s2 + trail
	if nopath {
		path, s1, s2 = "", "", ""
	}
	u = scheme + user + host + path + query
	id = s2
	if id == "" {
		id = s1
	}
	if id == keyword {
		id = ""
	}
	return
}

func c19Allowed(host string, roots ...string) bool {
	for _, r := range roots {
		if host == r || strings.HasSuffix(host, "."+r) {
			return true
		}
	}
	return false
}

func c19Check(res webdoc.Element, node *html.Node, service string, allowed bool, id string, tag string) {
	if res == nil {
		vx.Cover(tag + "-nil")
		return
	}
	e, ok := res.(*webdoc.Embed)
	vx.Assert(ok, tag+": extractor returned a non-embed element")
	if !ok {
		return
	}
	vx.Cover(tag + "-embed")
	vx.Assert(allowed, tag+": placeholder created for a host that is not allow-listed for "+service)
	vx.Assert(e.Type == service, tag+": wrong data-type")
	vx.Assert(e.ID == id, tag+": data-id is not the identifier in the URL")
	vx.Assert(e.Element == node, tag+": placeholder refers to another element")
}

// HarnessC19YouTube: iframe[src], object[data] and object>param[movie].
func HarnessC19YouTube() {
	u, host, id := c19URL("embed")
	var node *html.Node
	switch vx.Choose("form", 3) {
	case 0:
		node = dom.CreateElement("iframe")
		dom.SetAttribute(node, "src", u)
	case 1:
		node = dom.CreateElement("object")
		dom.SetAttribute(node, "type", "application/x-shockwave-flash")
		dom.SetAttribute(node, "data", u)
	case 2:
		node = dom.CreateElement("object")
		p := dom.CreateElement("param")
		dom.SetAttribute(p, "name", "movie")
		dom.SetAttribute(p, "value", u)
		dom.AppendChild(node, p)
	}
	res := NewYouTubeExtractor(nil, nil).Extract(node)
	c19Check(res, node, "youtube", c19Allowed(host, "youtube.com", "youtube-nocookie.com"), id, "youtube")
}

// HarnessC19Vimeo: iframe[src].
func HarnessC19Vimeo() {
	u, host, id := c19URL("video")
	node := dom.CreateElement("iframe")
	dom.SetAttribute(node, "src", u)
	res := NewVimeoExtractor(nil, nil).Extract(node)
	c19Check(res, node, "vimeo", c19Allowed(host, "player.vimeo.com"), id, "vimeo")
	// the other services' extractors must not claim it unless it is theirs
	if y := NewYouTubeExtractor(nil, nil).Extract(node); y != nil {
		vx.Assert(c19Allowed(host, "youtube.com", "youtube-nocookie.com"), "vimeo-form iframe claimed by the youtube extractor for a foreign host")
	}
}

// HarnessC19Twitter: blockquote.twitter-tweet>a and iframe[data-tweet-id].
func HarnessC19Twitter() {
	u, host, id := c19URL("\x00none")
	var node *html.Node
	if vx.Choose("form", 2) == 0 {
		node = dom.CreateElement("blockquote")
		dom.SetAttribute(node, "class", "twitter-tweet")
		p := dom.CreateElement("p")
		a0 := dom.CreateElement("a")
		dom.SetAttribute(a0, "href", "https://twitter.com/hashtag/x")
		dom.AppendChild(p, a0)
		dom.AppendChild(node, p)
		a := dom.CreateElement("a")
		dom.SetAttribute(a, "href", u)
		dom.AppendChild(node, a)
		res := NewTwitterExtractor(nil, nil).Extract(node)
		c19Check(res, node, "twitter", c19Allowed(host, "twitter.com"), id, "tweet")
	} else {
		node = dom.CreateElement("iframe")
		dom.SetAttribute(node, "src", u)
		tid := []string{"", "1234"}[vx.Choose("tid", 2)]
		if tid != "" {
			dom.SetAttribute(node, "data-tweet-id", tid)
		}
		res := NewTwitterExtractor(nil, nil).Extract(node)
		c19Check(res, node, "twitter", c19Allowed(host, "twitter.com"), tid, "tweet-iframe")
	}
}
