package extractor

import (
	"strings"

	"github.com/go-shiori/dom"
	"github.com/markusmobius/go-domdistiller/internal/converter"
	"github.com/markusmobius/go-domdistiller/internal/webdoc"
	vx "github.com/markusmobius/go-domdistiller/internal/zzverif"
)

type c19Counter struct{}

func (c19Counter) Count(s string) int { return len(strings.Fields(s)) }

// HarnessC19Iframes: an iframe of a host that is not allow-listed, at every
// placement outside retained data tables and captions (top level, paragraph,
// list item, quote, video fallback content, object fallback, figure, next to a
// recognised embed), with every element forced to be content: no iframe
// element is in the distilled HTML.
func HarnessC19Iframes() {
	src := []string{"https://evil.example/x", "//ads.example/frame", "https://www.youtube.com.evil.example/embed/abc", "/local/frame.html", "https://youtube.com@evil.example/embed/abc"}[vx.Choose("src", 5)]
	fr := `<iframe src="` + src + `">fallback words</iframe>`
	place := []string{
		`<div><p>alpha beta</p>%s<p>gamma</p></div>`,
		`<p>alpha %s beta</p>`,
		`<ul><li>item %s</li></ul>`,
		`<blockquote>quote %s</blockquote>`,
		`<p>alpha</p><video src="v.mp4"><p>fallback</p>%s</video><p>beta</p>`,
		`<p>alpha</p><video src="v.mp4">
  %s
</video><p>beta</p>`,
		`<p>alpha</p><object data="x.swf"><p>fallback</p>%s</object>`,
		`<p>alpha</p><figure>%s<img src="f.png"></figure>`,
		`<p>alpha</p><iframe src="https://www.youtube.com/embed/abc"></iframe>%s`,
		`<table><tr><td>layout %s</td></tr></table>`,
	}[vx.Choose("place", 10)]
	doc := vx.ParseHTML("<html><head><title>T</title></head><body>" + strings.Replace(place, "%s", fr, 1) + "</body></html>")
	b := webdoc.NewWebDocumentBuilder(c19Counter{}, nil)
	converter.NewDomConverter(converter.Default, b, nil, nil).Convert(dom.QuerySelector(doc, "html"))
	wd := b.Build()
	for _, e := range wd.Elements {
		e.SetIsContent(true)
	}
	out := wd.GenerateOutput(false)
	vx.Cover("iframe")
	vx.Assert(!strings.Contains(out, "evil.example") && !strings.Contains(out, "ads.example") && !strings.Contains(out, "/local/frame.html"),
		"an iframe of a host that is not allow-listed is in the distilled HTML: "+place)
	vx.Assert(strings.Count(out, "<iframe") <= strings.Count(place, "youtube.com/embed"), "an unrecognised iframe element is in the distilled HTML")
}

// HarnessC19Folding: hosts that become an allow-listed name only under Unicode
// case folding (KELVIN SIGN for k, dotted capital I, long s) are foreign hosts:
// concrete probes through the whole converter, no placeholder may appear.
func HarnessC19Folding() {
	src := []string{
		"https://www.youtube-nocooKie.com/embed/abc",
		"https://www.youtube-nocooKie.com/v/abc",
		"https://player.vİmeo.com/video/123",
		"https://platform.twİtter.com/embed/x",
		"https://www.youtube.comK/embed/abc",
		"https://player.vimeo.comſ/video/123",
		"https://www.K.youtube.com.evil.example/embed/abc",
	}[vx.Choose("src", 7)]
	el := []string{
		`<iframe src="%s" data-tweet-id="123"></iframe>`,
		`<object data="%s" type="application/x-shockwave-flash"><param name="movie" value="%s"></object>`,
		`<embed src="%s">`,
	}[vx.Choose("el", 3)]
	doc := vx.ParseHTML("<html><head><title>T</title></head><body><p>alpha beta</p>" + strings.ReplaceAll(el, "%s", src) + "<p>gamma</p></body></html>")
	b := webdoc.NewWebDocumentBuilder(c19Counter{}, nil)
	converter.NewDomConverter(converter.Default, b, nil, nil).Convert(dom.QuerySelector(doc, "html"))
	wd := b.Build()
	for _, e := range wd.Elements {
		e.SetIsContent(true)
	}
	out := wd.GenerateOutput(false)
	vx.Cover("folding")
	vx.Assert(!strings.Contains(out, "embed-placeholder"), "a host that equals an allow-listed name only under Unicode case folding got an embed placeholder: "+src)
	vx.Assert(!strings.Contains(out, "<iframe") && !strings.Contains(out, "<object") && !strings.Contains(out, "<embed"), "an unrecognised embed element is in the distilled HTML")
}
