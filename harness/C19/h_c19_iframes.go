package extractor

import (
	nurl "net/url"
	"strings"

	"github.com/go-shiori/dom"
	"github.com/markusmobius/go-domdistiller/internal/converter"
	"github.com/markusmobius/go-domdistiller/internal/webdoc"
	vx "github.com/markusmobius/go-domdistiller/internal/zzverif"
)

type c19Counter struct{}

func (c19Counter) Count(s string) int { return len(strings.Fields(s)) }

// HarnessC19Iframes: an iframe of a host that is not allow-listed, at every
// placement outside retained data tables and captions (top level, paragraph,
// list item, quote, video fallback content, object fallback, figure, next to a
// recognised embed), with every element forced to be content: no iframe
// element is in the distilled HTML.
func HarnessC19Iframes() {
	src := []string{"https://evil.example/x", "//ads.example/frame", "https://www.youtube.com.evil.example/embed/abc", "/local/frame.html", "https://youtube.com@evil.example/embed/abc"}[vx.Choose("src", 5)]
	fr := `<iframe src="` + src + `">fallback words</iframe>`
	place := []string{
		`<div><p>alpha beta</p>%s<p>gamma</p></div>`,
		`<p>alpha %s beta</p>`,
		`<ul><li>item %s</li></ul>`,
		`<blockquote>quote %s</blockquote>`,
		`<p>alpha</p><video src="v.mp4"><p>fallback</p>%s</video><p>beta</p>`,
		`<p>alpha</p><video src="v.mp4">
  %s
</video><p>beta</p>`,
		`<p>alpha</p><object data="x.swf"><p>fallback</p>%s</object>`,
		`<p>alpha</p><figure>%s<img src="f.png"></figure>`,
		`<p>alpha</p><iframe src="https://www.youtube.com/embed/abc"></iframe>%s`,
		`<table><tr><td>layout %s</td></tr></table>`,
	}[vx.Choose("place", 10)]
	doc := vx.ParseHTML("<html><head><title>T</title></head><body>" + strings.Replace(place, "%s", fr, 1) + "</body></html>")
	b := webdoc.NewWebDocumentBuilder(c19Counter{}, nil)
	converter.NewDomConverter(converter.Default, b, nil, nil).Convert(dom.QuerySelector(doc, "html"))
	wd := b.Build()
	for _, e := range wd.Elements {
		e.SetIsContent(true)
	}
	out := wd.GenerateOutput(false)
	vx.Cover("iframe")
	vx.Assert(!strings.Contains(out, "evil.example") && !strings.Contains(out, "ads.example") && !strings.Contains(out, "/local/frame.html"),
		"an iframe of a host that is not allow-listed is in the distilled HTML: "+place)
	vx.Assert(strings.Count(out, "<iframe") <= strings.Count(place, "youtube.com/embed"), "an unrecognised iframe element is in the distilled HTML")
}

// HarnessC19Folding: hosts that become an allow-listed name only under Unicode
// case folding (KELVIN SIGN for k, dotted capital I, long s) are foreign hosts:
// concrete probes through the whole converter, no placeholder may appear.
func HarnessC19Folding() {
	src := []string{
		"https://www.youtube-nocooKie.com/embed/abc",
		"https://www.youtube-nocooKie.com/v/abc",
		"https://player.vİmeo.com/video/123",
		"https://platform.twİtter.com/embed/x",
		"https://www.youtube.comK/embed/abc",
		"https://player.vimeo.comſ/video/123",
		"https://www.K.youtube.com.evil.example/embed/abc",
	}[vx.Choose("src", 7)]
	el := []string{
		`<iframe src="%s" data-tweet-id="123"></iframe>`,
		`<object data="%s" type="application/x-shockwave-flash"><param name="movie" value="%s"></object>`,
		`<embed src="%s">`,
	}[vx.Choose("el", 3)]
	doc := vx.ParseHTML("<html><head><title>T</title></head><body><p>alpha beta</p>" + strings.ReplaceAll(el, "%s", src) + "<p>gamma</p></body></html>")
	b := webdoc.NewWebDocumentBuilder(c19Counter{}, nil)
	converter.NewDomConverter(converter.Default, b, nil, nil).Convert(dom.QuerySelector(doc, "html"))
	wd := b.Build()
	for _, e := range wd.Elements {
		e.SetIsContent(true)
	}
	out := wd.GenerateOutput(false)
	vx.Cover("folding")
	vx.Assert(!strings.Contains(out, "embed-placeholder"), "a host that equals an allow-listed name only under Unicode case folding got an embed placeholder: "+src)
	vx.Assert(!strings.Contains(out, "<iframe") && !strings.Contains(out, "<object") && !strings.Contains(out, "<embed"), "an unrecognised embed element is in the distilled HTML")
}

func c19Convert(body string, pageURL string) string {
	var pu *nurl.URL
	if pageURL != "" {
		pu, _ = nurl.Parse(pageURL)
	}
	doc := vx.ParseHTML("<html><head><title>T</title></head><body><p>alpha beta</p>" + body + "<p>gamma</p></body></html>")
	b := webdoc.NewWebDocumentBuilder(c19Counter{}, pu)
	converter.NewDomConverter(converter.Default, b, pu, nil).Convert(dom.QuerySelector(doc, "html"))
	wd := b.Build()
	for _, e := range wd.Elements {
		e.SetIsContent(true)
	}
	return wd.GenerateOutput(false)
}

// HarnessC19Placeholder: the placeholder that is emitted for a recognised
// embed names the service and the identifier taken from the URL, whatever
// data-* attributes the embedding element itself carries.
func HarnessC19Placeholder() {
	own := []string{"", ` data-id="evil" data-type="other"`, ` data-type="" data-foo="bar" data-id=""`}[vx.Choose("own", 3)]
	forms := []struct{ html, typ, id string }{
		{`<iframe src="https://www.youtube.com/embed/abc123"` + own + `></iframe>`, "youtube", "abc123"},
		{`<iframe src="https://player.vimeo.com/video/4567"` + own + `></iframe>`, "vimeo", "4567"},
		{`<blockquote class="twitter-tweet"` + own + `><p>tweet</p><a href="https://twitter.com/u/status/8910">d</a></blockquote>`, "twitter", "8910"},
		{`<iframe src="https://platform.twitter.com/embed/x" data-tweet-id="8911"` + own + `></iframe>`, "twitter", "8911"},
	}
	f := forms[vx.Choose("form", len(forms))]
	out := c19Convert(f.html, "")
	od := vx.ParseHTML("<html><body>" + out + "</body></html>")
	ph := dom.QuerySelector(od, ".embed-placeholder")
	vx.Assert(ph != nil, "recognised embed has no placeholder")
	if ph == nil {
		return
	}
	vx.Cover("placeholder")
	vx.Assert(dom.GetAttribute(ph, "data-type") == f.typ, "placeholder does not name the service of the allow-listed host")
	vx.Assert(dom.GetAttribute(ph, "data-id") == f.id, "placeholder does not carry the identifier taken from the URL")
}

// HarnessC19History: a relative frame address is judged against the page it is
// on: after a page of the service itself (where /embed/x is the service's
// player) was distilled, the same relative address on another site is still a
// foreign frame -- and the other way round.
func HarnessC19History() {
	svc := []struct{ page, src string }{{"https://www.youtube.com/watch", "/embed/abc123"}, {"https://player.vimeo.com/x", "/video/4567"}, {"https://www.youtube.com/watch", "//www.youtube.com/embed/abc123"}}[vx.Choose("svc", 3)]
	fr := `<iframe src="` + svc.src + `"></iframe>`
	has := func(page string) bool { return strings.Contains(c19Convert(fr, page), "embed-placeholder") }
	if vx.Choose("order", 2) == 0 {
		first := has(svc.page)
		if first {
			vx.Cover("own-site")
		}
		if !strings.HasPrefix(svc.src, "//") {
			vx.Assert(!has("http://h.t/story"), "a relative frame address on a foreign site got a placeholder after the service's own page was distilled")
		}
	} else {
		foreign := has("http://h.t/story")
		if !strings.HasPrefix(svc.src, "//") {
			vx.Assert(!foreign, "a relative frame address on a foreign site got a placeholder")
		}
		again := has(svc.page)
		vx.Assert(again == has(svc.page), "the same page gives different results when distilled twice")
		if again {
			vx.Cover("own-site")
		}
	}
}
