package domutil

import (
	"strings"

	vx "github.com/markusmobius/go-domdistiller/internal/zzverif"
)

// HarnessC19RootDomain: HasRootDomain(url, "a.b") is true exactly when the
// host of the URL is a.b or a subdomain of it -- for every host, userinfo and
// every continuation after the host (path, query, fragment, nothing), whose
// bytes may spell the root name. net/url is interpreted, not modelled.
func HarnessC19RootDomain() {
	hostMax := vx.Param("host", 5)
	tailMax := vx.Param("tail", 3)
	hostMenu := []string{"a.b", "ba.b", "b.a.b", "a.b.a", "b", ""}
	host, scheme, user, sep, tail := "", "http://", "", "/", "x"
	switch vx.Choose("slice", 3) {
	case 0: // every host
		host = vx.NondetStringIn("host", hostMax, "ab.-")
		scheme = []string{"http://", "https://", "//", "", "/"}[vx.Choose("scheme", 5)]
	case 1: // every userinfo
		host = hostMenu[vx.Choose("hostmenu", len(hostMenu))]
		if vx.Choose("userform", 2) == 0 {
			user = vx.NondetStringIn("user", 4, "ab.") + "@"
		} else {
			user = "a.b:" + vx.NondetStringIn("pass", 3, "ab.") + "@"
		}
	case 2: // every continuation after the host
		host = hostMenu[vx.Choose("hostmenu", len(hostMenu))]
		sep = []string{"", "/", "?", "#", "/x?", ":80/", "\\"}[vx.Choose("sep", 7)]
		tail = ""
		if sep != "" {
			tail = vx.NondetStringIn("tail", tailMax, "ab./=")
		}
	}
	u := scheme + user + host + sep + tail
	got := HasRootDomain(u, "a.b")
	want := host == "a.b" || strings.HasSuffix(host, ".a.b")
	if scheme == "" || scheme == "/" {
		want = false // a relative reference has no host at all
	}
	// The statement is an "only if": a foreign host is never accepted. (That
	// an allow-listed host IS accepted is not demanded -- e.g. a host with an
	// explicit port is rejected by the code -- but at least one accepting path
	// must exist, else the harness would be vacuous: Cover("accepted").)
	if got {
		vx.Cover("accepted")
		vx.Assert(want, "foreign host accepted (scheme "+scheme+", after host '"+sep+"')")
	} else {
		vx.Cover("rejected")
	}
}
