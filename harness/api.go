// Package zzverif is the harness API. Under the symbolic engine every function
// here is intercepted; natively (replay) values come from a table.
package zzverif

import (
	"strings"

	"golang.org/x/net/html"
)

var (
	Bools   = map[string][]bool{}
	Ints    = map[string][]int{}
	Strings = map[string][]string{}
	Failed  []string
)

func NondetBool(name string) bool {
	v := Bools[name]
	if len(v) == 0 {
		return false
	}
	Bools[name] = v[1:]
	return v[0]
}

func NondetInt(name string) int {
	v := Ints[name]
	if len(v) == 0 {
		return 0
	}
	Ints[name] = v[1:]
	return v[0]
}

func NondetString(name string, maxLen int) string {
	v := Strings[name]
	if len(v) == 0 {
		return ""
	}
	Strings[name] = v[1:]
	return v[0]
}

type assumeFailed struct{}

func Assume(c bool) {
	if !c {
		panic(assumeFailed{})
	}
}

func Assert(c bool, msg string) {
	if !c {
		Failed = append(Failed, msg)
	}
}

func Cover(label string) {}

// ParseHTML parses a concrete document (native parser; outside the encoding).
func ParseHTML(s string) *html.Node {
	doc, err := html.Parse(strings.NewReader(s))
	if err != nil {
		panic(err)
	}
	return doc
}

// NondetStringIn is NondetString with every byte drawn from alphabet.
func NondetStringIn(name string, maxLen int, alphabet string) string { return NondetString(name, maxLen) }

// MapOrderAll switches exploration of all map iteration orders on or off.
func MapOrderAll(on bool) {}

// Freeze marks everything reachable from the arguments as caller-owned.
func Freeze(roots ...interface{}) {}

// Thaw ends monitoring.
func Thaw() {}
