package extractor

import (
	"strings"

	"github.com/go-shiori/dom"
	"github.com/markusmobius/go-domdistiller/internal/webdoc"
	vx "github.com/markusmobius/go-domdistiller/internal/zzverif"
)

type c20Sym struct {
	memo map[string]int
	max  int
}

func (c *c20Sym) Count(s string) int {
	if n, ok := c.memo[s]; ok {
		return n
	}
	n := 0
	if strings.TrimSpace(s) != "" {
		n = vx.NondetInt("wc", 1, c.max)
	}
	c.memo[s] = n
	return n
}

// markers: attribute text that marks a subtree as unlikely content, and its
// neutral replacement
var c20Markers = [][2]string{
	{`class="sidebar"`, `class="zzneutral"`},
	{`role="navigation"`, `role="zzneutral"`},
	{`id="footer"`, `id="zzneutral"`},
	{`class="widget" role="dialog"`, `class="widget" role="zzneutral"`},
	{`class="top-menu x"`, `class="top-zz x"`},
	{`class="comment-list" id="c1"`, `class="zz-list" id="c1"`},
}

// inner content of the marked subtree
var c20Inner = []string{
	`<p>gamma gamma</p>`,
	`<ul><li><a href="/a">nav one</a></li><li><a href="/b">nav two</a></li></ul>`,
	`<img src="cover.png">`,
	`<p>gamma gamma</p><img src="side.png"><p>delta delta</p>`,
}

type c20Result struct {
	content string
	wc      int
	images  string
	text    string
}

func c20Run(page string, c *c20Sym) c20Result {
	doc := vx.ParseHTML(page)
	ce := NewContentExtractor(dom.QuerySelector(doc, "html"), nil, nil)
	ce.WordCounter = c
	wd, wc := ce.ExtractContent()
	var sb strings.Builder
	for _, e := range wd.Elements {
		if !e.IsContent() {
			continue
		}
		switch x := e.(type) {
		case *webdoc.Text:
			sb.WriteString("T:" + strings.TrimSpace(x.Text) + ";")
		case *webdoc.Tag:
			sb.WriteString("G:" + x.Name + ";")
		default:
			sb.WriteString("E:" + e.ElementType() + ";")
		}
	}
	return c20Result{sb.String(), wc, strings.Join(ce.ImageURLs, ","), wd.GenerateOutput(true)}
}

// HarnessC20Unlikely: P has a subtree marked as unlikely content; Pdel lacks
// the subtree; Pneu has the markers renamed to neutral values. One symbolic
// word counter is shared, so corresponding texts get the same arbitrary
// counts. If Pdel yields >= 500 words the result of P equals Pdel's,
// otherwise it equals Pneu's.
func HarnessC20Unlikely() {
	mk := c20Markers[vx.Choose("marker", vx.Param("markers", len(c20Markers)))]
	inner := c20Inner[vx.Choose("inner", vx.Param("inners", len(c20Inner)))]
	place := vx.Choose("place", vx.Param("places", 6))
	if place == 4 && !strings.HasPrefix(mk[0], "role=") {
		// class/id markers are exempt inside tables by design; only role markers are pruned there
		vx.Assume(false)
	}
	if place == 4 && (strings.Contains(mk[0], "navigation")) {
		mk = [2]string{`role="dialog"`, `role="zzneutral"`} // landmark roles also change the table's classification
	}
	if place == 5 {
		// one representative of the other dimensions here (the bare texts add symbolic counts of their own)
		vx.Assume(inner == c20Inner[0])
	}
	main1, main2 := `<p>alpha alpha</p>`, `<p>beta beta</p>`
	build := func(marked string) string {
		s := `<html><head><title>T</title></head><body>`
		switch place {
		case 0:
			s += marked + `<div>` + main1 + main2 + `</div>`
		case 1:
			s += `<div>` + main1 + main2 + `</div>` + marked
		case 2:
			s += `<div>` + main1 + marked + main2 + `</div>`
		case 3:
			s += `<div>` + main1 + `<section><div>` + marked + `</div></section>` + main2 + `</div>`
		case 4:
			s += `<div>` + main1 + `<table><tr><td>` + marked + `</td></tr></table>` + main2 + `</div>`
		case 5: // between bare text nodes of one parent
			s += `<div>` + main1 + `<div>gamma one ` + marked + ` gamma two</div>` + main2 + `</div>`
		}
		return s + `</body></html>`
	}
	tag := []string{"div", "section", "aside"}[vx.Choose("tag", vx.Param("tags", 3))]
	// an exempt element (anchor) carrying the same markers, before or after
	exempt := ""
	nex := vx.Param("exempts", 3)
	if place == 5 {
		nex = 1
	}
	switch vx.Choose("exempt", nex) {
	case 1:
		// (followed by a data table: content kept as a whole that sits between or before the marked parts)
		exempt = `<a href="/x" ` + mk[0] + `>epsilon</a><table><caption>zeta</caption><thead><tr><th>eta</th><th>theta</th></tr></thead><tbody><tr><td>iota</td><td>kappa</td></tr></tbody></table>`
	case 2:
		exempt = `<table><tr><td ` + mk[0] + `>epsilon</td></tr></table>`
	}
	exemptN := strings.Replace(exempt, mk[0], mk[1], 1)
	order := 0
	if exempt != "" {
		order = vx.Choose("order", 2)
	}
	wrap := func(a, b string) string {
		if order == 0 {
			return a + b
		}
		return b + a
	}
	P := build(wrap(`<`+tag+` `+mk[0]+`>`+inner+`</`+tag+`>`, exempt))
	// (a comment stands in for the deleted subtree, so that the texts around it
	// stay the same text nodes and get the same symbolic counts)
	Pdel := build(wrap(`<!--deleted-->`, exempt))
	Pneu := build(wrap(`<`+tag+` `+mk[1]+`>`+inner+`</`+tag+`>`, exemptN))
	c := &c20Sym{memo: map[string]int{}, max: vx.Param("maxwc", 600)}
	rp := c20Run(P, c)
	rd := c20Run(Pdel, c)
	if rd.wc >= 500 {
		vx.Cover("pruned")
		vx.Assert(rp.wc == rd.wc, "enough content remains, but WordCount differs from the page without the marked subtree")
		vx.Assert(rp.content == rd.content, "enough content remains, but the retained elements differ from the page without the marked subtree")
		vx.Assert(rp.images == rd.images, "enough content remains, but ContentImages differ from the page without the marked subtree")
		vx.Assert(rp.text == rd.text, "enough content remains, but the distilled text differs from the page without the marked subtree")
	} else {
		rn := c20Run(Pneu, c)
		vx.Cover("fallback")
		vx.Assert(rp.wc == rn.wc, "fallback: WordCount differs from the page with neutral markers")
		vx.Assert(rp.content == rn.content, "fallback: the retained elements differ from the page with neutral markers")
		vx.Assert(rp.images == rn.images, "fallback: ContentImages differ from the page with neutral markers")
		vx.Assert(rp.text == rn.text, "fallback: the distilled text differs from the page with neutral markers")
	}
}
