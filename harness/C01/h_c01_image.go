package embed

import (
	"github.com/go-shiori/dom"
	vx "github.com/markusmobius/go-domdistiller/internal/zzverif"
	"golang.org/x/net/html"
)

// HarnessC01ImageAttrs: the image extractor on img / picture / figure / span
// nodes whose src, srcset and lazy-loading attributes are heads from a menu of
// URL and data-URI forms followed by arbitrary bytes: no panic (the attribute
// parsing slices and measures these strings).
func HarnessC01ImageAttrs() {
	heads := []string{"", "x.png", "data:", "data:image/png;base64", "data:image/png;base64,", "DATA:image/gif; BASE64 ,", "data:image/svg+xml;base64,", "data:;base64", "http://h.t/i.jpg", "i.jpg 1x, j.png", "base64"}
	val := func(name string) string {
		return heads[vx.Choose(name+"head", len(heads))] + vx.NondetStringIn(name, vx.Param("tail", 2), ",;A= .")
	}
	img := dom.CreateElement("img")
	switch vx.Choose("attrs", 4) {
	case 0:
		dom.SetAttribute(img, "src", val("src"))
	case 1:
		dom.SetAttribute(img, "src", "data:image/gif;base64,R0")
		dom.SetAttribute(img, []string{"data-src", "data-original", "data-url", "data-lazy"}[vx.Choose("lazy", 4)], val("lazy"))
	case 2:
		dom.SetAttribute(img, "srcset", val("srcset"))
		dom.SetAttribute(img, "data-srcset", val("dsrcset"))
	case 3:
		dom.SetAttribute(img, "src", val("src"))
		dom.SetAttribute(img, "width", val("w"))
		dom.SetAttribute(img, "height", "10")
	}
	var node *html.Node = img
	switch vx.Choose("wrap", 4) {
	case 1:
		node = dom.CreateElement("picture")
		src := dom.CreateElement("source")
		dom.SetAttribute(src, "srcset", val("psrcset"))
		dom.AppendChild(node, src)
		dom.AppendChild(node, img)
	case 2:
		node = dom.CreateElement("figure")
		dom.AppendChild(node, img)
		cap := dom.CreateElement("figcaption")
		dom.SetTextContent(cap, "capt")
		dom.AppendChild(node, cap)
	case 3:
		node = dom.CreateElement("span")
		dom.AppendChild(node, img)
	}
	vx.Cover("run")
	if e := NewImageExtractor(nil, nil).Extract(node); e != nil {
		vx.Cover("image")
		e.GenerateOutput(false)
	}
	vx.Assert(true, "end of the harness reached (this harness only looks for panics; the assertion exists for the canary run)")
}
