package pattern

import (
	nurl "net/url"

	vx "github.com/markusmobius/go-domdistiller/internal/zzverif"
)

// HarnessC01Patterns: every page pattern the real constructors derive from a
// URL with an arbitrary path (letters, digits, separators), applied to an
// arbitrary candidate URL and document URL: the index arithmetic of
// IsPagingURL / IsValidFor never panics, for path and query patterns.
func HarnessC01Patterns() {
	p := vx.NondetStringIn("path", vx.Param("path", 6), "a/2-")
	q := []string{"", "?p=2", "?a=1&page=12", "?page="}[vx.Choose("query", 4)]
	u, err := nurl.Parse("http://h.t/" + p + q)
	if err != nil {
		return
	}
	var pats []PagePattern
	pats = append(pats, PathComponentPagePatternsFromURL(u)...)
	pats = append(pats, QueryParamPagePatternsFromURL(u)...)
	cand := "http://h.t/" + vx.NondetStringIn("cand", vx.Param("cand", 5), "a/2-?")
	du, derr := nurl.Parse("http://h.t/" + vx.NondetStringIn("doc", vx.Param("doc", 3), "a/2"))
	for _, pat := range pats {
		vx.Cover("pattern")
		_ = pat.String()
		_ = pat.PageNumber()
		_ = pat.IsPagingURL(cand)
		if derr == nil {
			_ = pat.IsValidFor(du)
		}
	}
	vx.Assert(true, "end of the harness reached (this harness only looks for panics; the assertion exists for the canary run)")
}
