package pagination

import (
	nurl "net/url"

	"github.com/go-shiori/dom"
	"github.com/markusmobius/go-domdistiller/internal/stringutil"
	vx "github.com/markusmobius/go-domdistiller/internal/zzverif"
)

var c01Heads = []string{"", "/", "?", "#", "http://h.t/", "HTTP://H.T/", "http://x.t/", "javascript:", "mailto:", "//h.t/", "http://h.t", "http:/", "http://", "%zz", "http://[::1]/", "http://h.t:x/"}

// HarnessC01PrevNext: both pagination algorithms on anchors whose href is a
// head from the menu of URL kinds (including malformed ones) followed by an
// arbitrary tail, with an arbitrary page URL path: no panic.
func HarnessC01PrevNext() {
	pu := "http://h.t/" + vx.NondetStringIn("pagepath", vx.Param("pagepath", 3), "a/2.")
	pu += []string{"", "?page=2", "#f"}[vx.Choose("pagequery", 3)]
	pageURL, err := nurl.Parse(pu)
	if err != nil {
		return
	}
	head := c01Heads[vx.Choose("head", len(c01Heads))]
	href := head + vx.NondetStringIn("tail", vx.Param("tail", 3), "a/3?=.:")
	text := []string{"next", "3", "prev", ""}[vx.Choose("text", 4)]
	doc := vx.ParseHTML(`<html><body><div class="pager"><p>words</p>2 <a href="H">` + text + `</a> <a href="/a/4">4</a></div></body></html>`)
	dom.SetAttribute(dom.GetElementsByTagName(doc, "a")[0], "href", href)
	vx.Cover("run")
	if vx.Choose("algo", 2) == 0 {
		NewPrevNextFinder(nil).FindPagination(doc, pageURL)
	} else {
		NewPageNumberFinder(stringutil.SelectWordCounter("plain english text"), nil, nil).FindPagination(doc, pageURL)
	}
	vx.Assert(true, "end of the harness reached (this harness only looks for panics; the assertion exists for the canary run)")
}

// HarnessC01Folding: hosts that collide under Unicode case folding (concrete).
func HarnessC01Folding() {
	hosts := []string{"k.t", "K.t", "\u212a.t", "\u017f.t", "x\u212a.t", "\u212a", "xK.t"} // (escapes: U+212A KELVIN SIGN and U+017F must not be normalised away by an editor)
	pageURL, err := nurl.Parse("http://" + hosts[vx.Choose("pagehost", len(hosts))] + "/story/2")
	if err != nil {
		return
	}
	href := "http://" + hosts[vx.Choose("linkhost", len(hosts))] + []string{"/story/3", "/", "", "/3"}[vx.Choose("tail", 4)]
	doc := vx.ParseHTML(`<html><body><div class="pager"><a href="` + href + `" class="next">next</a></div></body></html>`)
	vx.Cover("run")
	NewPrevNextFinder(nil).FindPagination(doc, pageURL)
	NewPageNumberFinder(stringutil.SelectWordCounter("plain english text"), nil, nil).FindPagination(doc, pageURL)
	vx.Assert(true, "end of the harness reached (this harness only looks for panics; the assertion exists for the canary run)")
}
