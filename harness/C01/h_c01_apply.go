package distiller

import (
	nurl "net/url"
	"strings"

	"github.com/go-shiori/dom"
	vx "github.com/markusmobius/go-domdistiller/internal/zzverif"
	"golang.org/x/net/html"
)

const zzLong = "one two three four five six seven eight nine ten eleven twelve thirteen fourteen fifteen sixteen seventeen eighteen nineteen twenty"

// fragments handed to Apply as root: element kind x children
var zzFragments = []string{
	`<span>` + zzLong + `</span>`,
	`<b>` + zzLong + ` <i>inner</i></b>`,
	`<a href="javascript:void(0)">` + zzLong + `</a>`,
	`<a href="/x">` + zzLong + `</a>`,
	`<p>` + zzLong + `</p>`,
	`<li>` + zzLong + `</li>`,
	`<td>` + zzLong + `</td>`,
	`<table><tr><td>` + zzLong + `</td></tr></table>`,
	`<ul><li>` + zzLong + `</li><li>short</li></ul>`,
	`<blockquote>` + zzLong + `</blockquote>`,
	`<pre>` + zzLong + `</pre>`,
	`<div><span>` + zzLong + `</span><a href="javascript:;">js</a> tail words</div>`,
	`<img src="i.png">`,
	`<figure><img src="f.png"><figcaption>` + zzLong + `</figcaption></figure>`,
	`<font color="red">` + zzLong + `</font>`,
	`<em></em>`,
	`<h1>` + zzLong + `</h1>`,
	`<svg><text>` + zzLong + `</text></svg>`,
	`<form><input value="x">` + zzLong + `</form>`,
	`<iframe src="https://www.youtube.com/embed/abc"></iframe>`,
	`<video src="v.mp4"></video>`,
	`<label>` + zzLong + `</label>`,
}

func zzWellFormed(res *Result, err error, what string) {
	if err != nil {
		vx.Cover("error")
		vx.Assert(res == nil, what+": both a result and an error")
		return
	}
	vx.Cover("result")
	vx.Assert(res != nil, what+": neither result nor error")
	if res == nil {
		return
	}
	vx.Assert(res.Node != nil && res.Node.Type == html.ElementNode && res.Node.Data == "div", what+": Result.Node is not a div element")
}

func zzAnyOpts() *Options {
	if vx.Choose("optsnil", 3) == 0 {
		return nil
	}
	var o *Options
	if vx.Param("allflags", 0) == 1 {
		o = &Options{LogFlags: LogFlag(vx.NondetInt("flags", 0, 31)), SkipPagination: vx.NondetBool("skip")}
	} else {
		o = &Options{LogFlags: []LogFlag{0, LogEverything, LogPagination, LogExtraction | LogVisibility, LogTiming}[vx.Choose("flagset", 5)], SkipPagination: vx.NondetBool("skip")}
	}
	if vx.NondetBool("algo") {
		o.PaginationAlgo = PageNumber
	}
	switch vx.Choose("url", vx.Param("urls", 4)) {
	case 1:
		o.OriginalURL, _ = nurl.Parse("http://h.t/a/2")
	case 2:
		o.OriginalURL, _ = nurl.Parse("/relative/only?page=2")
	case 3:
		o.OriginalURL = &nurl.URL{}
	}
	return o
}

// HarnessC01Roots: Apply on every kind of root -- a detached element of each
// kind, the same element attached inside a document, a hand-built node, a
// text node, a document node -- with every option combination: it returns an
// error or a result whose Node is a div; it never panics.
func HarnessC01Roots() {
	frag := zzFragments[vx.Choose("fragment", len(zzFragments))]
	var root *html.Node
	how := vx.Choose("how", 5)
	switch how {
	case 0: // detached element (parsed as fragment, then detached)
		doc := vx.ParseHTML("<html><body>" + frag + "</body></html>")
		root = dom.QuerySelector(doc, "body").FirstChild
		if root != nil && root.Data == "table" && strings.HasPrefix(frag, "<td") {
			root = dom.QuerySelector(root, "td")
		}
		if root != nil && root.Parent != nil {
			root.Parent.RemoveChild(root)
		}
	case 1: // attached sub-element
		doc := vx.ParseHTML("<html><body><div>" + frag + "</div></body></html>")
		root = dom.QuerySelector(doc, "body > div").FirstChild
	case 2: // body of a document that contains only the fragment
		doc := vx.ParseHTML("<html><body>" + frag + "</body></html>")
		root = dom.QuerySelector(doc, "body")
	case 3: // document node
		root = vx.ParseHTML(frag)
	case 4: // hand-built element without namespace/atom, text child
		root = &html.Node{Type: html.ElementNode, Data: "span"}
		root.AppendChild(&html.Node{Type: html.TextNode, Data: zzLong})
	}
	if root == nil {
		return
	}
	res, err := Apply(root, zzAnyOpts())
	zzWellFormed(res, err, "Apply")
}

var zzStreams = []string{
	"", " ", "<", "<!", "<!-- c", "<html", "</p>", "plain text only " + zzLong, "<p>" + zzLong,
	"<html><frameset><frame src=a></frameset><noframes>" + zzLong + "</noframes></html>",
	`<html style="display:inline"><frameset style="display:inline"><noframes style="display:inline">` + zzLong + `</noframes></frameset></html>`,
	"<table><tr><td><table><tr><td>" + zzLong + "</table>x",
	"<svg><p>" + zzLong + "</svg>", "<select><option>" + zzLong, "<title>t</title>" + zzLong,
	"<body style=\"display:inline\"><span>" + zzLong + "</span>", "<html style=\"display:inline\"><body style=\"display:inline\">" + zzLong,
	"<a href=\"javascript:x\">" + zzLong + "</a>", "<template><p>" + zzLong + "</p></template>", "<math><mi>x</mi></math>" + zzLong,
	"<ul><li>" + zzLong + "<ul><li>" + zzLong, "<pre>\n" + zzLong, "<br><br><br>", "<img src=x><img src=y>", "<h1></h1><h2></h2>",
	// hidden parts of retained structures
	"<p>" + zzLong + `</p><figure><img src="f.png"><figcaption hidden>capt <a href="/x">l</a></figcaption></figure><p>` + zzLong + "</p>",
	"<p>" + zzLong + `</p><figure hidden><img src="f.png"><figcaption>capt</figcaption></figure><table><thead hidden><tr><th>a</th><th>b</th></tr></thead><tr hidden><td>c</td><td>d</td></tr><tr><td hidden>e</td><td>f</td></tr></table><p>` + zzLong + "</p>",
	"<p>" + zzLong + `</p><figure><picture hidden><img src="f.png"></picture><figcaption><a href="/x" hidden>l</a></figcaption></figure><video hidden src="v.mp4"></video><p>` + zzLong + "</p>",
	// metadata oddities
	`<div itemscope itemtype="http://schema.org/ImageObject"><span itemprop="caption">c</span></div><p>` + zzLong + `</p>`,
	`<div itemscope itemtype="http://schema.org/Article"><div itemprop="image" itemscope itemtype="http://schema.org/ImageObject"></div><span itemprop="author"></span><span itemprop="publisher" itemscope></span></div><p>` + zzLong + `</p>`,
	`<div itemscope><span itemprop="name">n</span><div itemscope itemtype="http://schema.org/Person"></div></div><span itemprop="headline">orphan</span><p>` + zzLong + `</p>`,
	`<html prefix="og:"><head><meta property="og:title" content=""><meta property="og:image"><meta property="og:image:width" content="x"><meta property="article:author"><meta name="IE_RM_OFF"></head><body><p>` + zzLong + `</p>`,
	`<html xmlns:og="http://ogp.me/ns#" xmlns:x="http://ogp.me/ns/x#"><head><meta property="og:type" content="profile"><meta property="profile:first_name" content="A"><meta property="og:title" content="T"><meta property="og:url" content="u"><meta property="og:image" content="i"></head><body><p>` + zzLong + `</p>`,
	`<head><title></title><meta name="title"><meta name="displaydate" content=""></head><figure><img width="x" height="0"><figcaption></figcaption><figcaption></figcaption><figcaption></figcaption></figure><img width="800" height="400"><p class="byline-name"></p><p>` + zzLong + `</p>`,
	`<a rel="author"></a><link rel="author"><div itemscope itemtype="http://schema.org/NewsArticle" itemid="x"><meta itemprop="datePublished"><img itemprop="image"><a itemprop="url"></a></div><p>` + zzLong + `</p>`,
	// document-level references: base URLs, microdata references (also cyclic ones), non-ASCII bytes
	`<head><base href="/"><base href="../x/"></head><p>` + zzLong + ` <a href="rel">l</a><img src="i.png"></p>`,
	`<head><base href="//b.t/"></head><p>` + zzLong + ` <a href="?q">l</a></p><base href="%zz"><base>`,
	`<div id="card"><div itemscope itemref="card"><span itemprop="name">n</span></div></div><div itemscope itemtype="http://schema.org/Article" itemref="a b a" id="a"><span id="b" itemprop="headline" itemref="a">h</span></div><p>` + zzLong + `</p>`,
	"<p>caf\u00e9 cafe\u0301 so\u00adft \ud55c\uad6d\uc5b4 \u4e2d\u6587 " + zzLong + "</p>",
}

// HarnessC01Streams: ApplyForReader / ApplyForFile on odd byte streams
// (truncated, unbalanced, framesets, inline-styled roots) x options.
func HarnessC01Streams() {
	s := zzStreams[vx.Choose("stream", len(zzStreams))]
	opts := zzAnyOpts()
	if vx.Choose("entry", 2) == 0 {
		res, err := ApplyForReader(strings.NewReader(s), opts)
		zzWellFormed(res, err, "ApplyForReader")
	} else {
		path, done := vx.TempFile(s)
		res, err := ApplyForFile(path, opts)
		done()
		zzWellFormed(res, err, "ApplyForFile")
	}
}
