package extractor

import (
	"strings"

	"github.com/go-shiori/dom"
	"github.com/markusmobius/go-domdistiller/internal/converter"
	"github.com/markusmobius/go-domdistiller/internal/webdoc"
	vx "github.com/markusmobius/go-domdistiller/internal/zzverif"
	"golang.org/x/net/html"
)

// ---- page generator: trees of ul/ol/li/blockquote/pre mixed with text, media,
// skipped, hidden and embed children. Every word is a unique token tN.

type c07Gen struct{ n int }

func (g *c07Gen) tok() string {
	g.n++
	return "t" + string(rune('a'+g.n/26)) + string(rune('a'+g.n%26))
}

// leaf-level content of a list item / quote / top level
func (g *c07Gen) block(depth int, name string) string {
	menu := 9
	if depth <= 0 {
		menu = 4
	} else if depth < vx.Param("depth", 2) {
		menu = vx.Param("inner", 9)
	}
	switch vx.Choose(name, menu) {
	case 0:
		// (every other paragraph is followed directly by a line break, so that a
		// <br> also sits right before list, quote and pre start tags)
		return "<p>" + g.tok() + " " + g.tok() + "</p>" + []string{"", "<br>"}[g.n/2%2]
	case 1:
		return g.tok() + " " + g.tok() + " "
	case 2:
		return "<pre>" + g.tok() + "\n  " + g.tok() + "</pre>"
	case 3:
		if vx.Choose(name+"fig", 2) == 1 {
			return `<figure><img src="f.png"><figcaption>` + g.tok() + `</figcaption></figure>`
		}
		return `<img src="i.png">`
	case 4:
		tag := []string{"ul", "ol"}[vx.Choose(name+"l", 2)]
		s := "<" + tag + ">"
		items := 1 + vx.Choose(name+"n", vx.Param("items", 2))
		for i := 0; i < items; i++ {
			s += "<li>" + g.block(depth-1, name+"i") + "</li>"
		}
		return s + "</" + tag + ">"
	case 5:
		return "<blockquote>" + g.block(depth-1, name+"q") + "</blockquote>"
	case 6:
		return `<ul hidden><li>` + g.tok() + `</li></ul>`
	case 7:
		return `<blockquote class="twitter-tweet"><p>` + g.tok() + `</p><a href="https://twitter.com/u/status/123">` + g.tok() + `</a></blockquote>`
	case 8:
		return `<table><thead><tr><th>` + g.tok() + `</th><th>` + g.tok() + `</th></tr></thead><tbody><tr><td>` + g.tok() + `</td><td>` + g.tok() + `</td></tr></tbody></table>`
	}
	return ""
}

func c07Page() string {
	g := &c07Gen{}
	s := "<html><head><title>T</title></head><body><div>"
	w := vx.Param("width", 2)
	for i := 0; i < w; i++ {
		s += g.block(vx.Param("depth", 2), "b"+string(rune('0'+i)))
	}
	return s + "</div></body></html>"
}

func c07Nestable(tag string) bool {
	return tag == "ul" || tag == "ol" || tag == "li" || tag == "blockquote" || tag == "pre"
}

// chain of nestable ancestors of a node, outermost first
func c07Chain(n *html.Node) string {
	var parts []string
	for p := n.Parent; p != nil; p = p.Parent {
		if p.Type == html.ElementNode && c07Nestable(p.Data) {
			parts = append([]string{p.Data}, parts...)
		}
	}
	return strings.Join(parts, ">")
}

// token -> chain, for every text node of the tree
func c07Chains(root *html.Node, into map[string]string) {
	var walk func(n *html.Node)
	walk = func(n *html.Node) {
		if n.Type == html.TextNode {
			for _, w := range strings.Fields(n.Data) {
				into[w] = c07Chain(n)
			}
		}
		for c := n.FirstChild; c != nil; c = c.NextSibling {
			walk(c)
		}
	}
	walk(root)
}

type c07Counter struct{}

func (c07Counter) Count(s string) int { return len(strings.Fields(s)) }

// HarnessC07Tags: the Tag elements the converter emits are balanced, and every
// text element sits inside exactly the tag pairs of its source ancestors.
func HarnessC07Tags() {
	page := c07Page()
	doc := vx.ParseHTML(page)
	src := map[string]string{}
	c07Chains(doc, src)
	b := webdoc.NewWebDocumentBuilder(c07Counter{}, nil)
	converter.NewDomConverter(converter.Default, b, nil, nil).Convert(dom.QuerySelector(doc, "html"))
	wd := b.Build()
	var stack []string
	for _, e := range wd.Elements {
		switch x := e.(type) {
		case *webdoc.Tag:
			if x.Type == webdoc.TagStart {
				stack = append(stack, x.Name)
			} else {
				ok := len(stack) > 0 && stack[len(stack)-1] == x.Name
				vx.Assert(ok, "converter emitted an end tag that does not match the innermost open start tag")
				if len(stack) > 0 {
					stack = stack[:len(stack)-1]
				}
			}
		case *webdoc.Text:
			vx.Cover("text")
			for _, w := range strings.Fields(x.Text) {
				if want, ok := src[w]; ok {
					vx.Assert(strings.Join(stack, ">") == want, "text element is not inside the tag pairs of its source ancestors")
				}
			}
		}
	}
	vx.Assert(len(stack) == 0, "converter left a start tag without its end tag")
	// the rendering of the same document, everything retained: each word keeps
	// its chain of list/quote/pre ancestors (hidden and embed parts excepted)
	for _, e := range wd.Elements {
		e.SetIsContent(true)
	}
	od := vx.ParseHTML("<html><body>" + wd.GenerateOutput(false) + "</body></html>")
	got := map[string]string{}
	c07Chains(od, got)
	for w, chain := range got {
		if want, ok := src[w]; ok && !strings.Contains(page, `class="twitter-tweet"`) {
			vx.Assert(chain == want, "rendered word changed its list/quote/pre nesting")
		}
	}
}

// HarnessC07Pipeline: whole ExtractContent with symbolic word counts; the
// distilled HTML is parsed back and every retained token must have the same
// chain of ul/ol/li/blockquote/pre ancestors as in the source.
func HarnessC07Pipeline() {
	page := c07Page()
	doc := vx.ParseHTML(page)
	src := map[string]string{}
	c07Chains(doc, src)
	ce := NewContentExtractor(dom.QuerySelector(doc, "html"), nil, nil)
	ce.WordCounter = &c07Sym{memo: map[string]int{}, max: vx.Param("maxwc", 100)}
	wd, _ := ce.ExtractContent()
	out := wd.GenerateOutput(false)
	od := vx.ParseHTML("<html><body>" + out + "</body></html>")
	got := map[string]string{}
	c07Chains(od, got)
	for w, chain := range got {
		if want, ok := src[w]; ok {
			vx.Cover("retained")
			vx.Assert(chain == want, "retained word "+w+" changed its list/quote/pre nesting: source "+want+" output "+chain)
		}
	}
}

type c07Sym struct {
	memo map[string]int
	max  int
}

func (c *c07Sym) Count(s string) int {
	if n, ok := c.memo[s]; ok {
		return n
	}
	n := 0
	if strings.TrimSpace(s) != "" {
		n = vx.NondetInt("wc", 1, c.max)
	}
	c.memo[s] = n
	return n
}

// HarnessC07Table: a data table of r x c cells (unique token per cell) between
// paragraphs; whatever the classifier decides, the table's cells are all in
// the output or none is.
func HarnessC07Table() {
	r, c := 2+vx.Choose("rows", vx.Param("rows", 2)), 2+vx.Choose("cols", vx.Param("cols", 2))
	g := &c07Gen{}
	var cells []string
	t := "<table><thead><tr>"
	for j := 0; j < c; j++ {
		w := g.tok()
		cells = append(cells, w)
		t += "<th>" + w + "</th>"
	}
	t += "</tr></thead><tbody>"
	for i := 1; i < r; i++ {
		t += "<tr>"
		for j := 0; j < c; j++ {
			w := g.tok()
			cells = append(cells, w)
			td := "<td>"
			switch vx.Choose("cellform", 4) {
			case 1:
				w = "<p>" + w + "</p>"
			case 3: // an empty cell
				cells = cells[:len(cells)-1]
				w = ""
			case 2:
				// attributes that say "rendered" in so many words
				td = `<td aria-hidden="false" style="display:table-cell; visibility:visible">`
			}
			t += td + w + "</td>"
		}
		t += "</tr>"
	}
	t += "</tbody></table>"
	page := "<html><head><title>T</title></head><body><div><p>" + g.tok() + " " + g.tok() + "</p>" + t + "<p>" + g.tok() + "</p></div></body></html>"
	doc := vx.ParseHTML(page)
	ce := NewContentExtractor(dom.QuerySelector(doc, "html"), nil, nil)
	ce.WordCounter = &c07Sym{memo: map[string]int{}, max: vx.Param("maxwc", 100)}
	wd, _ := ce.ExtractContent()
	out := wd.GenerateOutput(false)
	present := 0
	for _, w := range cells {
		if strings.Contains(out, ">"+w+"<") {
			present++
		}
	}
	if present > 0 {
		vx.Cover("table-kept")
		vx.Assert(present == len(cells), "a retained data table lost some of its cells")
		vx.Assert(strings.Count(out, "<tr>") == r, "a retained data table lost rows")
		vx.Assert(strings.Count(out, "<td")+strings.Count(out, "<th>") == r*c, "a retained data table lost cells")
	} else {
		vx.Cover("table-dropped")
	}
}
