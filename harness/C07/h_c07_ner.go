package docfilter

import (
	"github.com/markusmobius/go-domdistiller/internal/webdoc"
	vx "github.com/markusmobius/go-domdistiller/internal/zzverif"
)

type c07Leaf struct {
	webdoc.BaseElement
	id int
}

func (s *c07Leaf) GenerateOutput(textOnly bool) string { return "" }
func (s *c07Leaf) ElementType() string                 { return "leaf" }
func (s *c07Leaf) String() string                      { return "leaf" }

// HarnessC07Retainer: every balanced tag sequence of n events (shape chosen
// by case split) with arbitrary content flags on the non-tag elements. After
// NestedElementRetainer, every tag pair that encloses a content element has
// both tags marked content, and the content-marked tags are themselves a
// balanced, properly nested sequence (a start tag is content iff its own end
// tag is).
func HarnessC07Retainer() {
	n := vx.Param("n", 6)
	names := []string{"ul", "li", "blockquote", "ol", "pre"}
	doc := webdoc.NewDocument()
	type open struct {
		start *webdoc.Tag
		any   *bool
	}
	type pair struct {
		s, e *webdoc.Tag
		any  *bool
	}
	var stack []open
	var pairs []pair
	closeTop := func() {
		top := stack[len(stack)-1]
		stack = stack[:len(stack)-1]
		t := webdoc.NewTag(top.start.Name, webdoc.TagEnd)
		doc.AddElements(t)
		pairs = append(pairs, pair{top.start, t, top.any})
		if len(stack) > 0 && *top.any {
			*stack[len(stack)-1].any = true
		}
	}
	for i := 0; i < n; i++ {
		k := vx.Choose("ev", 3)
		switch {
		case k == 0: // open
			t := webdoc.NewTag(names[len(stack)%len(names)], webdoc.TagStart)
			doc.AddElements(t)
			stack = append(stack, open{t, new(bool)})
		case k == 1 && len(stack) > 0: // close
			closeTop()
		default: // leaf (text or media stand-in)
			l := &c07Leaf{id: i}
			c := vx.NondetBool("leaf")
			l.SetIsContent(c)
			doc.AddElements(l)
			if c && len(stack) > 0 {
				*stack[len(stack)-1].any = true
			}
		}
	}
	for len(stack) > 0 {
		closeTop()
	}
	NewNestedElementRetainer().Process(doc)
	for _, p := range pairs {
		vx.Cover("pair")
		if *p.any {
			vx.Assert(p.s.IsContent(), "start tag of a pair that encloses retained content is dropped")
			vx.Assert(p.e.IsContent(), "end tag of a pair that encloses retained content is dropped")
		}
		vx.Assert(p.s.IsContent() == p.e.IsContent(), "start and end tag of one pair disagree (unbalanced output)")
	}
}
