module gosx

go 1.23

require golang.org/x/tools v0.29.0

require (
	github.com/gogs/chardet v0.0.0-20211120154057-b7413eaefb8f // indirect
	golang.org/x/mod v0.22.0 // indirect
	golang.org/x/sync v0.10.0 // indirect
	golang.org/x/text v0.9.0 // indirect
)

require (
	github.com/andybalholm/cascadia v1.3.2
	github.com/go-shiori/dom v0.0.0-20230515143342-73569d674e1c
	golang.org/x/net v0.34.0
)

replace golang.org/x/net => /root/go/pkg/mod/golang.org/x/net@v0.10.0

replace golang.org/x/term => ./stubs/term
