module gosx

go 1.23

require golang.org/x/tools v0.29.0

require (
	golang.org/x/mod v0.22.0 // indirect
	golang.org/x/sync v0.10.0 // indirect
)

require (
	github.com/andybalholm/cascadia v1.3.2
	golang.org/x/net v0.34.0
)
replace golang.org/x/net => /root/go/pkg/mod/golang.org/x/net@v0.10.0
