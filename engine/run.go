package main

import (
	"flag"
	"fmt"
	"os"
	"path/filepath"
	"strings"
	"time"

	"golang.org/x/tools/go/packages"
	"golang.org/x/tools/go/ssa"
	"golang.org/x/tools/go/ssa/ssautil"
	"gosx/interp"
)

const mod = "github.com/markusmobius/go-domdistiller"

func main() {
	pkgPath := flag.String("pkg", "", "package dir relative to /repo, e.g. internal/filter/docfilter")
	harnessFile := flag.String("harness", "", "harness source file to overlay into that package")
	fn := flag.String("fn", "", "harness function")
	apiFile := flag.String("api", "/root/spike/harness/api.go", "api source")
	maxPaths := flag.Int("maxpaths", 100000, "")
	maxSteps := flag.Int("maxsteps", 200000, "")
	solverBin := flag.String("solver", "z3-new", "")
	mut := flag.String("mutate", "", "repoFile=replacementFile")
	flag.Parse()
	t0 := time.Now()
	api, _ := os.ReadFile(*apiFile)
	h, err := os.ReadFile(*harnessFile)
	if err != nil {
		panic(err)
	}
	cfg := &packages.Config{Mode: packages.LoadAllSyntax, Dir: "/repo", Overlay: map[string][]byte{
		"/repo/internal/zzverif/api.go":                         api,
		filepath.Join("/repo", *pkgPath, "zz_verif_harness.go"): h,
	}}
	if *mut != "" {
		kv := strings.SplitN(*mut, "=", 2)
		b, err := os.ReadFile(kv[1])
		if err != nil {
			panic(err)
		}
		cfg.Overlay["/repo/"+kv[0]] = b
	}
	pkgs, err := packages.Load(cfg, "./"+*pkgPath)
	if err != nil {
		panic(err)
	}
	if packages.PrintErrors(pkgs) > 0 {
		os.Exit(2)
	}
	prog, spkgs := ssautil.AllPackages(pkgs, ssa.InstantiateGenerics|ssa.BareInits)
	prog.Build()
	interpreted := func(p string) bool {
		return strings.HasPrefix(p, mod) || p == "github.com/go-shiori/dom" || p == "golang.org/x/net/html" || p == "net/url" || p == "path"
	}
	// init order: dependency order over module packages only
	var order []*ssa.Package
	seen := map[string]bool{}
	var visit func(p *packages.Package)
	visit = func(p *packages.Package) {
		if seen[p.PkgPath] {
			return
		}
		seen[p.PkgPath] = true
		for _, imp := range p.Imports {
			visit(imp)
		}
		if strings.HasPrefix(p.PkgPath, mod) {
			order = append(order, prog.Package(p.Types))
		}
	}
	visit(pkgs[0])
	fmt.Printf("loaded+built in %v; init pkgs %d\n", time.Since(t0), len(order))
	hf := spkgs[0].Func(*fn)
	if hf == nil {
		panic("no such function " + *fn)
	}
	solver := interp.NewSolver(*solverBin, "-in", "-t:5000")
	if os.Getenv("DECIDELOG") != "" {
		f, _ := os.Create(os.Getenv("DECIDELOG"))
		interp.DebugDecide = f
	}
	if os.Getenv("SMTLOG") != "" {
		f, _ := os.Create(os.Getenv("SMTLOG"))
		solver.Log = f
	}
	rep := interp.Explore(prog, hf, interp.Options{Interp: interpreted, InitPkgs: order, MaxSteps: *maxSteps, MaxPaths: *maxPaths}, solver)
	fmt.Printf("paths=%d infeasible=%d decisions=%d queries=%d solver=%v wall=%v\n", rep.Paths, rep.Infeasible, rep.Decisions, rep.Queries, rep.SolverTime, rep.Wall)
	fmt.Printf("covered=%v\nfuncs=%v\n", rep.Covered, rep.Funcs)
	for i, u := range rep.Unsupported {
		if i < 5 {
			fmt.Println("UNSUPPORTED:", u)
		}
	}
	for i, v := range rep.Violations {
		if i < 5 {
			fmt.Printf("VIOLATION: %s\n  model: %s\n", v.Msg, v.Model)
		}
	}
	fmt.Printf("violations=%d unsupported=%d\n", len(rep.Violations), len(rep.Unsupported))
}
