// gosx: forking symbolic executor for Go SSA, specialised to go-domdistiller.
//
//	gosx -pkg internal/filter/docfilter -harness h.go -fn HarnessX [-param k=v]... [-j 16] -out report.json
//
// The package under test is loaded from $GOSX_REPO (default /repo) as it is on
// disk now, with the harness file(s) and the harness API overlaid; nothing is
// written to the repository.
package main

import (
	"bufio"
	"bytes"
	"crypto/sha1"
	"encoding/hex"
	"encoding/json"
	"flag"
	"fmt"
	"go/token"
	"os"
	"os/exec"
	"path/filepath"
	"runtime/pprof"
	"sort"
	"strconv"
	"strings"
	"sync"
	"syscall"
	"time"

	"golang.org/x/tools/go/packages"
	"golang.org/x/tools/go/ssa"
	"golang.org/x/tools/go/ssa/ssautil"
	"gosx/interp"
)

const mod = "github.com/markusmobius/go-domdistiller"

type multi []string

func (m *multi) String() string     { return strings.Join(*m, ",") }
func (m *multi) Set(s string) error { *m = append(*m, s); return nil }

type workUnit struct {
	Prefixes []string `json:"prefixes"`
	Budget   int      `json:"budget"`
}

func main() {
	pkgPath := flag.String("pkg", "", "package dir relative to the repo, e.g. internal/filter/docfilter ('.' for the root package)")
	harnessFiles := flag.String("harness", "", "harness source file(s), comma separated, overlaid into that package")
	fn := flag.String("fn", "", "harness function")
	apiDir := flag.String("api", "/verif/harness/api", "directory with the harness API sources")
	maxPaths := flag.Int("maxpaths", 2000000, "global path budget")
	maxSteps := flag.Int("maxsteps", 300000, "per-path basic-block budget (unwinding bound)")
	solverBin := flag.String("solver", "z3-new", "solver binary (SMT-LIB2 over stdin)")
	jobs := flag.Int("j", 1, "worker processes")
	worker := flag.Bool("worker", false, "worker mode (internal)")
	concrete := flag.String("concrete", "", "run once, concretely, on this input table (JSON)")
	canary := flag.Bool("canary", false, "replace every assertion by false (vacuity check)")
	out := flag.String("out", "", "write the JSON report here (default stdout)")
	unit := flag.Int("unit", 300, "paths per work unit handed to a worker")
	timeout := flag.Duration("timeout", 0, "wall-clock limit for the exploration (0 = none); exceeding it is inconclusive")
	var params, overlays multi
	flag.Var(&params, "param", "name=value (repeatable)")
	flag.Var(&overlays, "overlay", "repoRelPath=file (repeatable): replace a repository file in the analysis")
	crossDir := flag.String("crossdir", "", "write standalone .smt2 files of assertion obligations here (cross-check by other solvers)")
	crossLimit := flag.Int("crosslimit", 40, "max obligations dumped per process")
	cpuprof := flag.String("cpuprofile", "", "write a CPU profile")
	flag.Parse()
	if *cpuprof != "" {
		f, _ := os.Create(*cpuprof)
		pprof.StartCPUProfile(f)
		defer pprof.StopCPUProfile()
	}
	interp.CrossDir, interp.CrossLimit = *crossDir, *crossLimit
	repo := os.Getenv("GOSX_REPO")
	if repo == "" {
		repo = "/repo"
	}
	t0 := time.Now()

	pm := map[string]int{}
	for _, p := range params {
		kv := strings.SplitN(p, "=", 2)
		if len(kv) != 2 {
			fatal("bad -param " + p)
		}
		n, err := strconv.Atoi(kv[1])
		if err != nil {
			fatal("bad -param " + p)
		}
		pm[kv[0]] = n
	}

	overlay := map[string][]byte{}
	apis, _ := filepath.Glob(filepath.Join(*apiDir, "*.go"))
	if *harnessFiles == "" && len(overlays) == 0 {
		// the driver has materialised harness and API in a scratch copy of the
		// repository: no overlay (an overlay makes go/packages type-check the
		// whole standard library from source)
		apis = nil
		overlay = nil
	}
	for _, f := range apis {
		b, err := os.ReadFile(f)
		if err != nil {
			fatal(err.Error())
		}
		overlay[filepath.Join(repo, "internal/zzverif", filepath.Base(f))] = b
	}
	for _, hf := range strings.Split(*harnessFiles, ",") {
		if hf == "" {
			continue
		}
		b, err := os.ReadFile(hf)
		if err != nil {
			fatal(err.Error())
		}
		overlay[filepath.Join(repo, *pkgPath, "zz_verif_"+filepath.Base(hf))] = b
	}
	for _, o := range overlays {
		kv := strings.SplitN(o, "=", 2)
		b, err := os.ReadFile(kv[1])
		if err != nil {
			fatal(err.Error())
		}
		overlay[filepath.Join(repo, kv[0])] = b
	}
	// The interpreted universe is loaded from source (roots); everything else
	// comes from export data (types only) and must be modelled by an intrinsic.
	cfg := &packages.Config{Mode: packages.LoadSyntax, Dir: repo, Overlay: overlay,
		Env: append(os.Environ(), "GOFLAGS=-mod=mod", "GOPROXY=off", "GOSUMDB=off", "GOTOOLCHAIN=local")}
	cfg.Fset = token.NewFileSet()
	pkgs, err := packages.Load(cfg, "./"+*pkgPath, "./...", "./internal/zzverif", "github.com/go-shiori/dom")
	if err != nil {
		fatal("load: " + err.Error())
	}
	if n := packages.PrintErrors(pkgs); n > 0 {
		fatal(fmt.Sprintf("%d package errors (harness or repository does not compile)", n))
	}
	if os.Getenv("GOSX_PROF") != "" {
		fmt.Fprintf(os.Stderr, "main load %.2fs\n", time.Since(t0).Seconds())
		packages.Visit(pkgs, nil, func(p *packages.Package) {
			if len(p.Syntax) > 0 {
				n := 0
				for _, f := range p.Syntax {
					n += int(f.End() - f.Pos())
				}
				if n > 30000 {
					fmt.Fprintln(os.Stderr, "  SRC", p.ID, len(p.Syntax), n)
				}
			}
		})
	}
	interpreted := func(p string) bool {
		return strings.HasPrefix(p, mod) || p == "github.com/go-shiori/dom" || p == "net/url" || p == "path"
	}
	prog, spkgs0 := ssautil.Packages(pkgs, ssa.InstantiateGenerics|ssa.BareInits)
	var spkgs []*ssa.Package
	var rootPkg *packages.Package
	wantPath := mod
	if *pkgPath != "." && *pkgPath != "" {
		wantPath = mod + "/" + *pkgPath
	}
	for i, p := range spkgs0 {
		if p == nil {
			continue
		}
		if !strings.HasSuffix(pkgs[i].ID, ".test") && !strings.Contains(pkgs[i].ID, " [") {
			p.Build()
		}
		if pkgs[i].PkgPath == wantPath && rootPkg == nil {
			rootPkg = pkgs[i]
			spkgs = append(spkgs, p)
		}
	}
	if rootPkg == nil {
		fatal("package " + wantPath + " not loaded")
	}
	pkgs = []*packages.Package{rootPkg}
	// shadow program: net/url and path, interpreted from source
	cfg2 := &packages.Config{Mode: packages.LoadSyntax, Dir: repo, Fset: cfg.Fset, Env: cfg.Env}
	shPkgs, err := packages.Load(cfg2, "net/url", "path")
	if err != nil || packages.PrintErrors(shPkgs) > 0 {
		fatal("cannot load net/url, path from source")
	}
	shProg, shSSA := ssautil.Packages(shPkgs, ssa.InstantiateGenerics|ssa.BareInits)
	var shadowInit []*ssa.Package
	for i, p := range shSSA {
		if p != nil {
			p.Build()
			interp.ShadowPkgs[shPkgs[i].PkgPath] = true
			if shPkgs[i].PkgPath == "path" {
				shadowInit = append([]*ssa.Package{p}, shadowInit...)
			} else {
				shadowInit = append(shadowInit, p)
			}
		}
	}
	interp.Shadow = shProg
	// init order: dependency order over module packages only
	var order []*ssa.Package
	seen := map[string]bool{}
	var visit func(p *packages.Package)
	visit = func(p *packages.Package) {
		if seen[p.PkgPath] {
			return
		}
		seen[p.PkgPath] = true
		var imps []string
		for k := range p.Imports {
			imps = append(imps, k)
		}
		sort.Strings(imps)
		for _, k := range imps {
			visit(p.Imports[k])
		}
		if strings.HasPrefix(p.PkgPath, mod) {
			order = append(order, prog.Package(p.Types))
		}
	}
	order = append(order, shadowInit...)
	visit(pkgs[0])
	hf := spkgs[0].Func(*fn)
	if hf == nil {
		fatal("no such harness function " + *fn)
	}
	loadS := time.Since(t0).Seconds()

	newSolver := func() *interp.Solver {
		s := interp.NewSolver(*solverBin, "-in")
		if os.Getenv("SMTLOG") != "" {
			f, _ := os.Create(os.Getenv("SMTLOG"))
			s.Log = f
		}
		return s
	}
	if os.Getenv("DECIDELOG") != "" {
		f, _ := os.Create(os.Getenv("DECIDELOG"))
		interp.DebugDecide = f
	}
	base := interp.Options{Interp: interpreted, InitPkgs: order, MaxSteps: *maxSteps, Params: pm, Canary: *canary}

	if *worker {
		solver := newSolver()
		defer solver.Close()
		rd := bufio.NewReaderSize(os.Stdin, 1<<20)
		w := bufio.NewWriter(os.Stdout)
		for {
			line, err := rd.ReadBytes('\n')
			if len(line) == 0 && err != nil {
				return
			}
			var u workUnit
			if json.Unmarshal(line, &u) != nil {
				return
			}
			o := base
			o.Start, o.MaxPaths = u.Prefixes, u.Budget
			rep := interp.Explore(prog, hf, o, solver)
			b, _ := json.Marshal(rep)
			w.Write(b)
			w.WriteByte('\n')
			w.Flush()
		}
	}

	var total *interp.Report
	if *concrete != "" {
		b, err := os.ReadFile(*concrete)
		if err != nil {
			fatal(err.Error())
		}
		in := &interp.Input{}
		if err := json.Unmarshal(b, in); err != nil {
			fatal(err.Error())
		}
		for k, v := range in.Params {
			if _, ok := pm[k]; !ok {
				pm[k] = v
			}
		}
		o := base
		o.Concrete, o.MaxPaths = in, 1
		solver := newSolver()
		total = interp.Explore(prog, hf, o, solver)
		solver.Close()
	} else if *jobs <= 1 {
		o := base
		o.MaxPaths = *maxPaths
		solver := newSolver()
		total = interp.Explore(prog, hf, o, solver)
		solver.Close()
	} else {
		total = coordinate(prog, hf, base, newSolver, *jobs, *maxPaths, *unit, *timeout)
	}
	if len(total.Pending) > 0 {
		total.Unsupported = append(total.Unsupported, fmt.Sprintf("path budget exhausted (%d paths), %d prefixes pending", total.Paths, len(total.Pending)))
		total.Pending = total.Pending[:0]
	}

	// hash of the SSA of every executed function of the module (the encoding)
	type fh struct{ Name, Hash string }
	var hashes []fh
	all := ssautil.AllFunctions(prog)
	byName := map[string]*ssa.Function{}
	for f := range all {
		byName[f.String()] = f
	}
	enc := sha1.New()
	for _, name := range interp.FuncList(total.Funcs) {
		f := byName[name]
		if f == nil {
			continue
		}
		var buf bytes.Buffer
		f.WriteTo(&buf)
		h := sha1.Sum(buf.Bytes())
		enc.Write(h[:])
		if strings.Contains(name, mod) && !strings.Contains(name, "zzverif") && !strings.Contains(name, "Harness") {
			hashes = append(hashes, fh{strings.ReplaceAll(name, mod+"/", ""), hex.EncodeToString(h[:4])})
		}
	}
	outRep := map[string]interface{}{
		"harness": *fn, "pkg": *pkgPath, "params": pm, "report": total, "load_s": loadS,
		"total_wall_s": time.Since(t0).Seconds(), "functions": hashes, "encoding_hash": hex.EncodeToString(enc.Sum(nil)),
		"solver": *solverBin, "jobs": *jobs, "max_steps": *maxSteps,
	}
	b, _ := json.MarshalIndent(outRep, "", " ")
	if *out != "" {
		if err := os.WriteFile(*out, b, 0o644); err != nil {
			fatal(err.Error())
		}
	} else {
		os.Stdout.Write(b)
	}
	fmt.Fprintf(os.Stderr, "gosx %s: paths=%d infeasible=%d decisions=%d queries=%d violations=%d unsupported=%d solver=%.1fs wall=%.1fs\n",
		*fn, total.Paths, total.Infeasible, total.Decisions, total.Queries, len(total.Violations), len(total.Unsupported), total.SolverS, time.Since(t0).Seconds())
	if os.Getenv("GOSX_PROF") != "" {
		fmt.Fprintf(os.Stderr, "init time total %v\n", interp.InitTime)
	}
	for i, u := range total.Unsupported {
		if i < 5 {
			fmt.Fprintln(os.Stderr, "  UNSUPPORTED:", u)
		}
	}
	for i, v := range total.Violations {
		if i < 8 {
			fmt.Fprintf(os.Stderr, "  CANDIDATE[%s]: %s @ %s\n", v.Kind, v.Msg, v.Where)
		}
	}
}

func fatal(msg string) {
	fmt.Fprintln(os.Stderr, "gosx: "+msg)
	os.Exit(2)
}

func merge(dst, src *interp.Report) {
	dst.Paths += src.Paths
	dst.Infeasible += src.Infeasible
	dst.Decisions += src.Decisions
	dst.Forks += src.Forks
	dst.Queries += src.Queries
	dst.Obligations += src.Obligations
	dst.Discharged += src.Discharged
	dst.SolverS += src.SolverS
	if src.MaxStepsSeen > dst.MaxStepsSeen {
		dst.MaxStepsSeen = src.MaxStepsSeen
	}
	for k, v := range src.VCount {
		if dst.VCount == nil {
			dst.VCount = map[string]int{}
		}
		dst.VCount[k] += v
	}
	seen := map[string]int{}
	for _, v := range dst.Violations {
		seen[v.Kind+":"+v.Msg]++
	}
	for _, v := range src.Violations {
		if seen[v.Kind+":"+v.Msg] < 3 {
			seen[v.Kind+":"+v.Msg]++
			dst.Violations = append(dst.Violations, v)
		}
	}
	dst.Unsupported = append(dst.Unsupported, src.Unsupported...)
	for k, v := range src.Covered {
		if dst.Covered == nil {
			dst.Covered = map[string]int{}
		}
		dst.Covered[k] += v
	}
	for k, v := range src.Funcs {
		if dst.Funcs == nil {
			dst.Funcs = map[string]int{}
		}
		dst.Funcs[k] += v
	}
	if len(dst.Samples) < 8 {
		dst.Samples = append(dst.Samples, src.Samples...)
	}
}

// coordinate expands the decision tree breadth-first in-process, then hands
// open prefixes to worker processes (one solver each); a worker explores its
// subtrees up to a path budget and returns what is left, which is re-queued.
func coordinate(prog *ssa.Program, hf *ssa.Function, base interp.Options, newSolver func() *interp.Solver, jobs, maxPaths, unit int, timeout time.Duration) *interp.Report {
	t0 := time.Now()
	o := base
	o.BFS, o.StopAtWork, o.MaxPaths = true, jobs*6, jobs*40
	solver := newSolver()
	total := interp.Explore(prog, hf, o, solver)
	solver.Close()
	if len(total.Pending) == 0 || len(total.Unsupported) > 0 {
		total.WallS = time.Since(t0).Seconds()
		return total
	}
	queue := total.Pending
	total.Pending = nil
	var mu sync.Mutex
	cond := sync.NewCond(&mu)
	active := 0
	stop := false
	var wg sync.WaitGroup
	args := append([]string{}, os.Args[1:]...)
	args = append(args, "-worker")
	for w := 0; w < jobs; w++ {
		wg.Add(1)
		go func() {
			defer wg.Done()
			cmd := exec.Command(os.Args[0], args...)
			cmd.Stderr = os.Stderr
			cmd.SysProcAttr = &syscall.SysProcAttr{Pdeathsig: syscall.SIGKILL}
			in, _ := cmd.StdinPipe()
			outp, _ := cmd.StdoutPipe()
			if err := cmd.Start(); err != nil {
				mu.Lock()
				total.Unsupported = append(total.Unsupported, "cannot start worker: "+err.Error())
				stop = true
				cond.Broadcast()
				mu.Unlock()
				return
			}
			rd := bufio.NewReaderSize(outp, 1<<20)
			defer func() { in.Close(); cmd.Process.Kill(); cmd.Wait() }()
			for {
				mu.Lock()
				for len(queue) == 0 && active > 0 && !stop {
					cond.Wait()
				}
				if stop || (len(queue) == 0 && active == 0) {
					cond.Broadcast()
					mu.Unlock()
					return
				}
				// take a share of the queue: deepest prefixes last => take from the end
				n := 1
				if len(queue) > jobs*4 {
					n = len(queue) / (jobs * 4)
					if n > 8 {
						n = 8
					}
				}
				// shallowest prefixes (largest subtrees) first
				sort.SliceStable(queue, func(a, b int) bool { return len(queue[a]) < len(queue[b]) })
				u := workUnit{Prefixes: append([]string(nil), queue[:n]...), Budget: unit}
				queue = queue[n:]
				active++
				mu.Unlock()
				b, _ := json.Marshal(u)
				tu := time.Now()
				in.Write(append(b, '\n'))
				line, err := rd.ReadBytes('\n')
				if os.Getenv("GOSX_PROF") != "" {
					fmt.Fprintf(os.Stderr, "unit %d prefixes took %.2fs, %d bytes\n", len(u.Prefixes), time.Since(tu).Seconds(), len(line))
				}
				mu.Lock()
				active--
				if err != nil && len(line) == 0 {
					total.Unsupported = append(total.Unsupported, "worker died")
					stop = true
					cond.Broadcast()
					mu.Unlock()
					return
				}
				var rep interp.Report
				if e := json.Unmarshal(line, &rep); e != nil {
					total.Unsupported = append(total.Unsupported, "bad worker output: "+e.Error())
					stop = true
				} else {
					merge(total, &rep)
					queue = append(queue, rep.Pending...)
					if len(rep.Unsupported) > 0 {
						stop = true
					}
					if total.Paths >= maxPaths {
						total.Pending = append(total.Pending, queue...)
						stop = true
					}
					if timeout > 0 && time.Since(t0) > timeout {
						total.Unsupported = append(total.Unsupported, fmt.Sprintf("wall-clock limit %v reached with %d prefixes pending", timeout, len(queue)))
						stop = true
					}
				}
				cond.Broadcast()
				mu.Unlock()
			}
		}()
	}
	wg.Wait()
	total.WallS = time.Since(t0).Seconds()
	return total
}
