module golang.org/x/term

go 1.17
