package interp

import (
	"math"
	"reflect"
	"strconv"
	"strings"
	"unicode"
	"unicode/utf8"
)

// Standard-library leaves that the code under test does not call today but that
// a reasonable edit of it might: served natively on CONCRETE arguments (a
// symbolic argument makes the path unsupported, i.e. the run inconclusive,
// never wrong). The *Func family calls the interpreted predicate per rune.

func asIntArg(v value) int64 {
	if isSym(v) {
		panic(unsupported{"symbolic integer crosses the native bridge in " + curIntrinsic})
	}
	return asInt64(v)
}

func init() {
	regN := func(name string, f interface{}) {
		if intrinsics[name] != nil {
			return
		}
		fv := reflect.ValueOf(f)
		intrinsics[name] = func(fr *frame, a []value) value {
			in := make([]reflect.Value, len(a))
			for i, x := range a {
				if isSym(x) {
					panic(unsupported{"symbolic value crosses the native bridge in " + name})
				}
				in[i] = toNative(x, fv.Type().In(i))
			}
			out := fv.Call(in)
			if len(out) == 1 {
				return fromNative(out[0])
			}
			t := make(tuple, len(out))
			for i := range out {
				t[i] = fromNative(out[i])
			}
			return t
		}
	}
	for name, f := range map[string]interface{}{
		"strings.SplitN": strings.SplitN, "strings.SplitAfter": strings.SplitAfter, "strings.Title": strings.Title,
		"strings.ToTitle": strings.ToTitle, "strings.Compare": strings.Compare, "strings.TrimLeft": strings.TrimLeft,
		"strings.TrimRight": strings.TrimRight, "strings.LastIndexAny": strings.LastIndexAny, "strings.ContainsAny": strings.ContainsAny,
		"strings.IndexAny": strings.IndexAny, "strings.Repeat": strings.Repeat, "strings.ReplaceAll": strings.ReplaceAll,
		"strings.EqualFold": strings.EqualFold, "strings.ToUpper": strings.ToUpper, "strings.IndexRune": strings.IndexRune,
		"strings.ContainsRune": strings.ContainsRune, "strings.ToValidUTF8": strings.ToValidUTF8,
		"strconv.ParseInt": strconv.ParseInt, "strconv.ParseFloat": strconv.ParseFloat, "strconv.ParseBool": strconv.ParseBool,
		"strconv.FormatInt": strconv.FormatInt, "strconv.Quote": strconv.Quote, "strconv.Unquote": strconv.Unquote,
		"unicode.IsLetter": unicode.IsLetter, "unicode.IsDigit": unicode.IsDigit, "unicode.IsNumber": unicode.IsNumber,
		"unicode.IsUpper": unicode.IsUpper, "unicode.IsLower": unicode.IsLower, "unicode.IsPunct": unicode.IsPunct,
		"unicode.ToLower": unicode.ToLower, "unicode.ToUpper": unicode.ToUpper, "unicode.IsControl": unicode.IsControl,
		"unicode/utf8.RuneLen": utf8.RuneLen, "unicode/utf8.ValidString": utf8.ValidString,
		"unicode/utf8.RuneCountInString": utf8.RuneCountInString,
		"math.Max": math.Max, "math.Min": math.Min, "math.Abs": math.Abs, "math.Floor": math.Floor, "math.Round": math.Round,
	} {
		regN(name, f)
	}

	// predicate-taking functions: the predicate is interpreted
	pred := func(fr *frame, f value, r rune) bool {
		res := call(fr.i, fr, 0, f, []value{int32(r)})
		switch b := res.(type) {
		case bool:
			return b
		case *Sym:
			return X.decide(b)
		}
		panic(unsupported{"predicate returned a non-Boolean"})
	}
	runesOf := func(v value) []rune {
		switch s := v.(type) {
		case string:
			return []rune(s)
		}
		panic(unsupported{"strings.*Func on a string with symbolic bytes"})
	}
	intrinsics["strings.TrimLeftFunc"] = func(fr *frame, a []value) value {
		rs := runesOf(a[0])
		for len(rs) > 0 && pred(fr, a[1], rs[0]) {
			rs = rs[1:]
		}
		return string(rs)
	}
	intrinsics["strings.TrimRightFunc"] = func(fr *frame, a []value) value {
		rs := runesOf(a[0])
		for len(rs) > 0 && pred(fr, a[1], rs[len(rs)-1]) {
			rs = rs[:len(rs)-1]
		}
		return string(rs)
	}
	intrinsics["strings.TrimFunc"] = func(fr *frame, a []value) value {
		rs := runesOf(a[0])
		for len(rs) > 0 && pred(fr, a[1], rs[0]) {
			rs = rs[1:]
		}
		for len(rs) > 0 && pred(fr, a[1], rs[len(rs)-1]) {
			rs = rs[:len(rs)-1]
		}
		return string(rs)
	}
	intrinsics["strings.IndexFunc"] = func(fr *frame, a []value) value {
		s := a[0].(string)
		for i, r := range s {
			if pred(fr, a[1], r) {
				return i
			}
		}
		return -1
	}
	intrinsics["strings.ContainsFunc"] = func(fr *frame, a []value) value {
		for _, r := range runesOf(a[0]) {
			if pred(fr, a[1], r) {
				return true
			}
		}
		return false
	}
	intrinsics["strings.FieldsFunc"] = func(fr *frame, a []value) value {
		var out []value
		cur := []rune{}
		in := false
		for _, r := range runesOf(a[0]) {
			if pred(fr, a[1], r) {
				if in {
					out = append(out, string(cur))
					cur, in = nil, false
				}
			} else {
				cur = append(cur, r)
				in = true
			}
		}
		if in {
			out = append(out, string(cur))
		}
		return out
	}
	intrinsics["strings.Map"] = func(fr *frame, a []value) value {
		var out []rune
		for _, r := range runesOf(a[1]) {
			m := call(fr.i, fr, 0, a[0], []value{int32(r)})
			if isSym(m) {
				panic(unsupported{"strings.Map with a symbolic mapping result"})
			}
			if n := rune(asInt64(m)); n >= 0 {
				out = append(out, n)
			}
		}
		return string(out)
	}
}
