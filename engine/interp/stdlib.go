package interp

import (
	"go/token"
	"go/types"
	"math"
	"reflect"
	"regexp"
	"strconv"
	"strings"
	"unicode"
	"unicode/utf8"

	"golang.org/x/tools/go/ssa"
)

// Standard-library leaves that the code under test does not call today but that
// a reasonable edit of it might: served natively on CONCRETE arguments (a
// symbolic argument makes the path unsupported, i.e. the run inconclusive,
// never wrong). The *Func family calls the interpreted predicate per rune.

func asIntArg(v value) int64 {
	if isSym(v) {
		panic(unsupported{"symbolic integer crosses the native bridge in " + curIntrinsic})
	}
	return asInt64(v)
}

func init() {
	regN := func(name string, f interface{}) {
		if intrinsics[name] != nil {
			return
		}
		fv := reflect.ValueOf(f)
		intrinsics[name] = func(fr *frame, a []value) value {
			in := make([]reflect.Value, len(a))
			for i, x := range a {
				if isSym(x) {
					panic(unsupported{"symbolic value crosses the native bridge in " + name})
				}
				in[i] = toNative(x, fv.Type().In(i))
			}
			out := fv.Call(in)
			if len(out) == 1 {
				return fromNative(out[0])
			}
			t := make(tuple, len(out))
			for i := range out {
				t[i] = fromNative(out[i])
			}
			return t
		}
	}
	for name, f := range map[string]interface{}{
		"strings.SplitN": strings.SplitN, "strings.SplitAfter": strings.SplitAfter, "strings.Title": strings.Title,
		"strings.ToTitle": strings.ToTitle, "strings.Compare": strings.Compare, "strings.TrimLeft": strings.TrimLeft,
		"strings.TrimRight": strings.TrimRight, "strings.LastIndexAny": strings.LastIndexAny, "strings.ContainsAny": strings.ContainsAny,
		"strings.IndexAny": strings.IndexAny, "strings.Repeat": strings.Repeat, "strings.ReplaceAll": strings.ReplaceAll,
		"strings.EqualFold": strings.EqualFold, "strings.ToUpper": strings.ToUpper, "strings.IndexRune": strings.IndexRune,
		"strings.ContainsRune": strings.ContainsRune, "strings.ToValidUTF8": strings.ToValidUTF8,
		"strconv.ParseInt": strconv.ParseInt, "strconv.ParseFloat": strconv.ParseFloat, "strconv.ParseBool": strconv.ParseBool,
		"strconv.FormatInt": strconv.FormatInt, "strconv.Quote": strconv.Quote, "strconv.Unquote": strconv.Unquote,
		"unicode.IsLetter": unicode.IsLetter, "unicode.IsDigit": unicode.IsDigit, "unicode.IsNumber": unicode.IsNumber,
		"unicode.IsUpper": unicode.IsUpper, "unicode.IsLower": unicode.IsLower, "unicode.IsPunct": unicode.IsPunct,
		"unicode.ToLower": unicode.ToLower, "unicode.ToUpper": unicode.ToUpper, "unicode.IsControl": unicode.IsControl,
		"unicode/utf8.RuneLen": utf8.RuneLen, "unicode/utf8.ValidString": utf8.ValidString,
		"unicode/utf8.RuneCountInString": utf8.RuneCountInString,
		"math.Max": math.Max, "math.Min": math.Min, "math.Abs": math.Abs, "math.Floor": math.Floor, "math.Round": math.Round,
	} {
		regN(name, f)
	}

	// predicate-taking functions: the predicate is interpreted
	pred := func(fr *frame, f value, r rune) bool {
		res := call(fr.i, fr, 0, f, []value{int32(r)})
		switch b := res.(type) {
		case bool:
			return b
		case *Sym:
			return X.decide(b)
		}
		panic(unsupported{"predicate returned a non-Boolean"})
	}
	runesOf := func(v value) []rune {
		switch s := v.(type) {
		case string:
			return []rune(s)
		}
		panic(unsupported{"strings.*Func on a string with symbolic bytes"})
	}
	intrinsics["strings.TrimLeftFunc"] = func(fr *frame, a []value) value {
		rs := runesOf(a[0])
		for len(rs) > 0 && pred(fr, a[1], rs[0]) {
			rs = rs[1:]
		}
		return string(rs)
	}
	intrinsics["strings.TrimRightFunc"] = func(fr *frame, a []value) value {
		rs := runesOf(a[0])
		for len(rs) > 0 && pred(fr, a[1], rs[len(rs)-1]) {
			rs = rs[:len(rs)-1]
		}
		return string(rs)
	}
	intrinsics["strings.TrimFunc"] = func(fr *frame, a []value) value {
		rs := runesOf(a[0])
		for len(rs) > 0 && pred(fr, a[1], rs[0]) {
			rs = rs[1:]
		}
		for len(rs) > 0 && pred(fr, a[1], rs[len(rs)-1]) {
			rs = rs[:len(rs)-1]
		}
		return string(rs)
	}
	intrinsics["strings.IndexFunc"] = func(fr *frame, a []value) value {
		s := a[0].(string)
		for i, r := range s {
			if pred(fr, a[1], r) {
				return i
			}
		}
		return -1
	}
	intrinsics["strings.ContainsFunc"] = func(fr *frame, a []value) value {
		for _, r := range runesOf(a[0]) {
			if pred(fr, a[1], r) {
				return true
			}
		}
		return false
	}
	intrinsics["strings.FieldsFunc"] = func(fr *frame, a []value) value {
		var out []value
		cur := []rune{}
		in := false
		for _, r := range runesOf(a[0]) {
			if pred(fr, a[1], r) {
				if in {
					out = append(out, string(cur))
					cur, in = nil, false
				}
			} else {
				cur = append(cur, r)
				in = true
			}
		}
		if in {
			out = append(out, string(cur))
		}
		return out
	}
	intrinsics["strings.Map"] = func(fr *frame, a []value) value {
		var out []rune
		for _, r := range runesOf(a[1]) {
			m := call(fr.i, fr, 0, a[0], []value{int32(r)})
			if isSym(m) {
				panic(unsupported{"strings.Map with a symbolic mapping result"})
			}
			if n := rune(asInt64(m)); n >= 0 {
				out = append(out, n)
			}
		}
		return string(out)
	}
}

func init() {
	rx := func(a value) *regexp.Regexp { return (*a.(*value)).(native).v.(*regexp.Regexp) }
	// further regexp methods, concrete arguments only (the symbolic variants of
	// the methods the repository uses are in strvec.go)
	natRx := func(name string, f func(re *regexp.Regexp, a []value) value) {
		if intrinsics[name] != nil {
			return
		}
		intrinsics[name] = func(fr *frame, a []value) value {
			for _, x := range a[1:] {
				if isSym(x) || isSymStr(x) {
					panic(unsupported{"symbolic argument to " + name})
				}
			}
			return f(rx(a[0]), a)
		}
	}
	natRx("(*regexp.Regexp).FindStringIndex", func(re *regexp.Regexp, a []value) value {
		return fromNative(reflect.ValueOf(re.FindStringIndex(conc(a[1]))))
	})
	natRx("(*regexp.Regexp).FindStringSubmatchIndex", func(re *regexp.Regexp, a []value) value {
		return fromNative(reflect.ValueOf(re.FindStringSubmatchIndex(conc(a[1]))))
	})
	natRx("(*regexp.Regexp).FindAllStringSubmatchIndex", func(re *regexp.Regexp, a []value) value {
		return fromNative(reflect.ValueOf(re.FindAllStringSubmatchIndex(conc(a[1]), int(asInt64(a[2])))))
	})
	natRx("(*regexp.Regexp).ReplaceAllLiteralString", func(re *regexp.Regexp, a []value) value {
		return re.ReplaceAllLiteralString(conc(a[1]), conc(a[2]))
	})
	natRx("(*regexp.Regexp).NumSubexp", func(re *regexp.Regexp, a []value) value { return re.NumSubexp() })
	natRx("(*regexp.Regexp).String", func(re *regexp.Regexp, a []value) value { return re.String() })
	intrinsics["regexp.QuoteMeta"] = func(fr *frame, a []value) value { return regexp.QuoteMeta(conc(a[0])) }
	intrinsics["regexp.Compile"] = func(fr *frame, a []value) value {
		re, err := regexp.Compile(conc(a[0]))
		if err != nil {
			return tuple{(*value)(nil), mkErr(err.Error())}
		}
		v := value(native{re})
		return tuple{&v, iface{}}
	}
	intrinsics["regexp.MatchString"] = func(fr *frame, a []value) value {
		ok, err := regexp.MatchString(conc(a[0]), conc(a[1]))
		if err != nil {
			return tuple{false, mkErr(err.Error())}
		}
		return tuple{ok, iface{}}
	}
	// strings.Replacer (concrete)
	intrinsics["strings.NewReplacer"] = func(fr *frame, a []value) value {
		var pairs []string
		for _, x := range a[0].([]value) {
			pairs = append(pairs, conc(x))
		}
		v := value(native{strings.NewReplacer(pairs...)})
		return &v
	}
	intrinsics["(*strings.Replacer).Replace"] = func(fr *frame, a []value) value {
		return (*a[0].(*value)).(native).v.(*strings.Replacer).Replace(conc(a[1]))
	}
	// time: opaque
	intrinsics["time.Since"] = func(fr *frame, a []value) value { return int64(0) }
	intrinsics["(time.Duration).String"] = func(fr *frame, a []value) value { return "0s" }
	intrinsics["(time.Duration).Seconds"] = func(fr *frame, a []value) value { return float64(0) }
	intrinsics["(time.Duration).Milliseconds"] = func(fr *frame, a []value) value { return int64(0) }
	// errors
	intrinsics["errors.Unwrap"] = func(fr *frame, a []value) value { return iface{} }
	intrinsics["errors.Is"] = func(fr *frame, a []value) value {
		x, y := a[0].(iface), a[1].(iface)
		return x.t != nil && y.t != nil && x.v == y.v
	}
	// sync/atomic on boxed cells (single-threaded interpretation; classified as synchronised)
	for _, n := range []string{"Int32", "Int64", "Uint32", "Uint64"} {
		n := n
		intrinsics["sync/atomic.Add"+n] = func(fr *frame, a []value) value {
			p := a[0].(*value)
			*p = binop(token.ADD, types.Typ[map[string]types.BasicKind{"Int32": types.Int32, "Int64": types.Int64, "Uint32": types.Uint32, "Uint64": types.Uint64}[n]], *p, a[1])
			return *p
		}
		intrinsics["sync/atomic.Load"+n] = func(fr *frame, a []value) value { return *a[0].(*value) }
		intrinsics["sync/atomic.Store"+n] = func(fr *frame, a []value) value { *a[0].(*value) = a[1]; return nil }
	}
}

func init() {
	// sync.Map: contents kept as an ordered map in struct slot 0 (the real
	// fields are never touched by interpreted code). Accesses are synchronised
	// by definition, so they are not race candidates; the state they keep across
	// calls is what the history harnesses observe.
	smap := func(p value) *omap {
		s := (*p.(*value)).(structure)
		if m, ok := s[0].(*omap); ok {
			return m
		}
		m := &omap{kt: types.NewInterfaceType(nil, nil)}
		s[0] = m
		return m
	}
	intrinsics["(*sync.Map).Load"] = func(fr *frame, a []value) value {
		syncDepth++
		defer func() { syncDepth-- }()
		v, ok := smap(a[0]).lookup(a[1])
		if !ok {
			return tuple{iface{}, false}
		}
		return tuple{v, true}
	}
	intrinsics["(*sync.Map).Store"] = func(fr *frame, a []value) value {
		syncDepth++
		defer func() { syncDepth-- }()
		smap(a[0]).insert(a[1], a[2])
		return nil
	}
	intrinsics["(*sync.Map).LoadOrStore"] = func(fr *frame, a []value) value {
		syncDepth++
		defer func() { syncDepth-- }()
		m := smap(a[0])
		if v, ok := m.lookup(a[1]); ok {
			return tuple{v, true}
		}
		m.insert(a[1], a[2])
		return tuple{a[2], false}
	}
	intrinsics["(*sync.Map).Delete"] = func(fr *frame, a []value) value {
		syncDepth++
		defer func() { syncDepth-- }()
		smap(a[0]).delete(a[1])
		return nil
	}
	// sync.Pool: Get returns the most recently Put object if there is one (the
	// schedule under which a missing reset shows), else New().
	intrinsics["(*sync.Pool).Put"] = func(fr *frame, a []value) value {
		s := (*a[0].(*value)).(structure)
		stack, _ := s[0].([]value)
		s[0] = append(stack, a[1])
		return nil
	}
	intrinsics["(*sync.Pool).Get"] = func(fr *frame, a []value) value {
		s := (*a[0].(*value)).(structure)
		if stack, ok := s[0].([]value); ok && len(stack) > 0 {
			v := stack[len(stack)-1]
			s[0] = stack[:len(stack)-1]
			return v
		}
		// field New is the last field of sync.Pool
		if nf := s[len(s)-1]; nf != nil {
			switch f := nf.(type) {
			case *ssa.Function:
				if f != nil {
					return call(fr.i, fr, 0, f, nil)
				}
			case *closure:
				if f != nil {
					return call(fr.i, fr, 0, f, nil)
				}
			}
		}
		return iface{}
	}
}
