package interp

import (
	"bufio"
	"fmt"
	"io"
	"os"
	"os/exec"
	"strings"
	"sync"
	"syscall"
	"time"
)

// Solver is one SMT solver process driven over a pipe (SMT-LIB2, incremental).
// A wall-clock watchdog kills a query that does not answer (z3's soft timeout
// does not fire in -in mode); the answer is then "unknown" and the caller makes
// the run inconclusive.
type Solver struct {
	bin     string
	args    []string
	cmd     *exec.Cmd
	in      io.WriteCloser
	out     *bufio.Reader
	Queries int
	Unknown int
	Time    time.Duration
	Log     io.Writer
	Timeout time.Duration
	dead    bool
	mu      sync.Mutex
}

const preamble = `(set-option :produce-models true)
(define-fun tdiv ((x Int) (y Int)) Int (ite (>= x 0) (ite (> y 0) (div x y) (- (div x (- y)))) (ite (> y 0) (- (div (- x) y)) (div (- x) (- y)))))
(define-fun tmod ((x Int) (y Int)) Int (- x (* y (tdiv x y))))
`

func NewSolver(bin string, args ...string) *Solver {
	s := &Solver{bin: bin, args: args, Timeout: 30 * time.Second}
	s.start()
	return s
}

func (s *Solver) start() {
	cmd := exec.Command(s.bin, s.args...)
	cmd.SysProcAttr = &syscall.SysProcAttr{Pdeathsig: syscall.SIGKILL}
	in, _ := cmd.StdinPipe()
	out, _ := cmd.StdoutPipe()
	cmd.Stderr = cmd.Stdout
	if err := cmd.Start(); err != nil {
		panic(err)
	}
	s.cmd, s.in, s.out, s.dead = cmd, in, bufio.NewReaderSize(out, 1<<16), false
	s.send(preamble)
}

// Restart replaces a dead solver process (all incremental state is lost; the
// caller must not continue the current path).
func (s *Solver) Restart() {
	if s.cmd != nil && s.cmd.Process != nil {
		s.cmd.Process.Kill()
		s.cmd.Wait()
	}
	s.start()
}

func (s *Solver) Close() {
	if s.cmd != nil && s.cmd.Process != nil {
		s.in.Close()
		s.cmd.Process.Kill()
		s.cmd.Wait()
	}
}

func (s *Solver) send(t string) {
	if s.Log != nil {
		io.WriteString(s.Log, t+"\n")
	}
	if s.dead {
		return
	}
	io.WriteString(s.in, t+"\n")
}

func (s *Solver) readLine() (string, bool) {
	l, err := s.out.ReadString('\n')
	if err != nil {
		s.dead = true
		return "", false
	}
	return strings.TrimSpace(l), true
}

// Check returns "sat", "unsat" or "unknown" (also for errors and timeouts).
func (s *Solver) Check() string {
	if s.dead {
		return "unknown"
	}
	t0 := time.Now()
	s.send("(check-sat)")
	timer := time.AfterFunc(s.Timeout, func() {
		s.mu.Lock()
		defer s.mu.Unlock()
		if s.cmd != nil && s.cmd.Process != nil {
			s.cmd.Process.Kill()
		}
	})
	r, ok := s.readLine()
	timer.Stop()
	s.Queries++
	d := time.Since(t0)
	s.Time += d
	if !ok {
		s.Unknown++
		fmt.Fprintf(os.Stderr, "gosx: solver query #%d killed after %v\n", s.Queries, d)
		return "unknown"
	}
	if r != "sat" && r != "unsat" {
		// "(error ...)", "unknown", "timeout": inconclusive
		s.Unknown++
		fmt.Fprintf(os.Stderr, "gosx: solver answered %q on query #%d\n", r, s.Queries)
		if strings.HasPrefix(r, "(error") {
			// drain multi-line error output conservatively: restart
			s.dead = true
		}
		return "unknown"
	}
	return r
}

// GetValue evaluates terms in the current model; returns the raw s-expression.
func (s *Solver) GetValue(terms []string) string {
	if len(terms) == 0 || s.dead {
		return "()"
	}
	s.send("(get-value (" + strings.Join(terms, " ") + "))")
	depth, buf := 0, ""
	for {
		l, ok := s.readLine()
		if !ok {
			return "()"
		}
		buf += l + " "
		depth += strings.Count(l, "(") - strings.Count(l, ")")
		if depth <= 0 {
			return buf
		}
	}
}

// parseModel parses "((t1 v1) (t2 v2) ...)" into a map from term text to
// value text ("5", "-3", "true", "false", rationals as "(/ a b)").
func parseModel(out string, terms []string) map[string]string {
	m := map[string]string{}
	// tokenise into top-level pairs
	out = strings.TrimSpace(out)
	if len(out) < 2 {
		return m
	}
	out = out[1 : len(out)-1] // strip outer parens
	depth, start := 0, -1
	var pairs []string
	inBar := false
	for i := 0; i < len(out); i++ {
		c := out[i]
		if c == '|' {
			inBar = !inBar
		}
		if inBar {
			continue
		}
		if c == '(' {
			if depth == 0 {
				start = i
			}
			depth++
		} else if c == ')' {
			depth--
			if depth == 0 && start >= 0 {
				pairs = append(pairs, out[start+1:i])
				start = -1
			}
		}
	}
	for k, p := range pairs {
		if k >= len(terms) {
			break
		}
		t := terms[k]
		p = strings.TrimSpace(p)
		if !strings.HasPrefix(p, t) {
			continue
		}
		v := strings.TrimSpace(p[len(t):])
		// normalise "(- 3)" to "-3"
		if strings.HasPrefix(v, "(- ") && strings.HasSuffix(v, ")") {
			v = "-" + strings.TrimSpace(v[3:len(v)-1])
		}
		m[t] = v
	}
	return m
}
