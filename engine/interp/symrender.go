package interp

// symRender is golang.org/x/net/html (v0.10.0) render1 transcribed onto model
// nodes whose Data / attribute keys / attribute values may contain symbolic
// bytes. Escaping is a decision per byte. Tag names must be concrete (they
// select void/raw-text behaviour). Used only when the subtree carries symbolic
// bytes; concrete subtrees go through the real html.Render. Validated against
// html.Render on concrete trees by bin/selftest.

var voidElements = map[string]bool{"area": true, "base": true, "br": true, "col": true, "embed": true, "hr": true,
	"img": true, "input": true, "keygen": true, "link": true, "meta": true, "param": true, "source": true, "track": true, "wbr": true}

func hasSymBytes(v value) bool { _, ok := v.(*SymStr); return ok }

// subtreeSymbolic reports whether any string in the subtree has symbolic bytes.
func subtreeSymbolic(p *value) bool {
	if p == nil {
		return false
	}
	s := (*p).(structure)
	if hasSymBytes(s[7]) || hasSymBytes(s[8]) {
		return true
	}
	for _, a := range s[9].([]value) {
		as := a.(structure)
		if hasSymBytes(as[0]) || hasSymBytes(as[1]) || hasSymBytes(as[2]) {
			return true
		}
	}
	for c := np(s[1]); c != nil; c = np((*c).(structure)[4]) {
		if subtreeSymbolic(c) {
			return true
		}
	}
	return false
}

func symEscape(out *[]value, s value) {
	for _, b := range bytesOf(s) {
		switch {
		case decideT(byteEq(b, uint8('&'))):
			*out = append(*out, bytesOf("&amp;")...)
		case decideT(byteEq(b, uint8('\''))):
			*out = append(*out, bytesOf("&#39;")...)
		case decideT(byteEq(b, uint8('<'))):
			*out = append(*out, bytesOf("&lt;")...)
		case decideT(byteEq(b, uint8('>'))):
			*out = append(*out, bytesOf("&gt;")...)
		case decideT(byteEq(b, uint8('"'))):
			*out = append(*out, bytesOf("&#34;")...)
		case decideT(byteEq(b, uint8('\r'))):
			*out = append(*out, bytesOf("&#13;")...)
		default:
			*out = append(*out, b)
		}
	}
}

func symEscapeComment(out *[]value, s value) {
	bs := bytesOf(s)
	for j, b := range bs {
		switch {
		case decideT(byteEq(b, uint8('&'))):
			*out = append(*out, bytesOf("&amp;")...)
		case decideT(byteEq(b, uint8('>'))):
			if j > 0 && !decideT(byteEq(bs[j-1], uint8('!'))) && !decideT(byteEq(bs[j-1], uint8('-'))) {
				*out = append(*out, b)
			} else {
				*out = append(*out, bytesOf("&gt;")...)
			}
		default:
			*out = append(*out, b)
		}
	}
}

type renderAbort struct{}

func symRender1(out *[]value, p *value) {
	s := (*p).(structure)
	w := func(x value) { *out = append(*out, bytesOf(x)...) }
	switch asInt64(s[5]) {
	case 0:
		panic(unsupported{"render of an ErrorNode"})
	case 1: // TextNode
		symEscape(out, s[7])
		return
	case 2: // DocumentNode
		for c := np(s[1]); c != nil; c = np((*c).(structure)[4]) {
			symRender1(out, c)
		}
		return
	case 3: // ElementNode
	case 4: // CommentNode
		w("<!--")
		symEscapeComment(out, s[7])
		w("-->")
		return
	case 5: // DoctypeNode
		w("<!DOCTYPE ")
		symEscape(out, s[7])
		if len(s[9].([]value)) > 0 {
			panic(unsupported{"symbolic render of a doctype with identifiers"})
		}
		w(">")
		return
	case 6: // RawNode
		w(s[7])
		return
	default:
		panic(unsupported{"render of unknown node type"})
	}
	tag, ok := s[7].(string)
	if !ok {
		panic(unsupported{"render of an element with a symbolic tag name"})
	}
	w("<")
	w(tag)
	for _, a := range s[9].([]value) {
		as := a.(structure)
		w(" ")
		if ns, isStr := as[0].(string); !isStr || ns != "" {
			w(as[0])
			w(":")
		}
		w(as[1])
		w(`="`)
		symEscape(out, as[2])
		w(`"`)
	}
	if voidElements[tag] {
		if np(s[1]) != nil {
			panic(unsupported{"render: void element with children"})
		}
		w("/>")
		return
	}
	w(">")
	if c := np(s[1]); c != nil && asInt64((*c).(structure)[5]) == 1 {
		d := bytesOf((*c).(structure)[7])
		if len(d) > 0 && decideT(byteEq(d[0], uint8('\n'))) {
			switch tag {
			case "pre", "listing", "textarea":
				w("\n")
			}
		}
	}
	switch tag {
	case "iframe", "noembed", "noframes", "noscript", "plaintext", "script", "style", "xmp":
		for c := np(s[1]); c != nil; c = np((*c).(structure)[4]) {
			if asInt64((*c).(structure)[5]) == 1 {
				w((*c).(structure)[7])
			} else {
				symRender1(out, c)
			}
		}
		if tag == "plaintext" {
			panic(renderAbort{})
		}
	default:
		for c := np(s[1]); c != nil; c = np((*c).(structure)[4]) {
			symRender1(out, c)
		}
	}
	w("</")
	w(tag)
	w(">")
}

// symRender renders p (and its subtree) to a string with symbolic bytes.
func symRender(p *value) (res value) {
	var out []value
	defer func() {
		if r := recover(); r != nil {
			if _, ok := r.(renderAbort); ok {
				res = mkStr(out)
				return
			}
			panic(r)
		}
	}()
	symRender1(&out, p)
	return mkStr(out)
}
