package interp

import (
	"fmt"
	"go/token"
	"go/types"
	"os"
	"regexp"
	"runtime"
	"sort"
	"strings"
	"time"

	"golang.org/x/tools/go/ssa"
)

func (i *interpreter) interpreted(fn *ssa.Function) bool {
	pkg := fn.Pkg
	if pkg == nil && fn.Origin() != nil {
		pkg = fn.Origin().Pkg
	}
	if pkg == nil {
		return true // synthetic wrappers, bound methods
	}
	return i.interpPkgs(pkg.Pkg.Path())
}

type native struct{ v interface{} }

type intrinsic func(fr *frame, args []value) value

var intrinsics = map[string]intrinsic{}

const apiPkg = "github.com/markusmobius/go-domdistiller/internal/zzverif"

func popInt(m map[string][]int, name string, def int) int {
	if v := m[name]; len(v) > 0 {
		m[name] = v[1:]
		return v[0]
	}
	return def
}

func init() {
	intrinsics[apiPkg+".NondetBool"] = func(fr *frame, a []value) value {
		name := a[0].(string)
		if c := X.Concrete; c != nil {
			r := false
			if v := c.Bools[name]; len(v) > 0 {
				r, c.Bools[name] = v[0], v[1:]
			}
			return r
		}
		s := X.fresh(name, "Bool")
		X.inputs = append(X.inputs, inputRec{'b', name, []value{s}})
		return s
	}
	intrinsics[apiPkg+".NondetInt"] = func(fr *frame, a []value) value {
		name, lo, hi := a[0].(string), asInt64(a[1]), asInt64(a[2])
		if c := X.Concrete; c != nil {
			return popInt(c.Ints, name, int(lo))
		}
		if lo > hi {
			panic(pathAbort{"empty range"})
		}
		if lo == hi {
			X.inputs = append(X.inputs, inputRec{'i', name, []value{int(lo)}})
			return int(lo)
		}
		s := X.fresh(name, "Int")
		s.Lo, s.Hi, s.Bounded = lo, hi, true
		X.assert(fmt.Sprintf("(and (<= %s %s) (<= %s %s))", intLit(lo), s.T, s.T, intLit(hi)))
		X.inputs = append(X.inputs, inputRec{'i', name, []value{s}})
		return s
	}
	intrinsics[apiPkg+".Choose"] = func(fr *frame, a []value) value {
		name, n := a[0].(string), int(asInt64(a[1]))
		if c := X.Concrete; c != nil {
			return popInt(c.Ints, name, 0)
		}
		if n <= 0 {
			panic(pathAbort{"empty choice"})
		}
		k := X.choose(n)
		X.inputs = append(X.inputs, inputRec{'i', name, []value{k}})
		return k
	}
	intrinsics[apiPkg+".Param"] = func(fr *frame, a []value) value {
		if v, ok := X.Params[a[0].(string)]; ok {
			return v
		}
		return int(asInt64(a[1]))
	}
	nondetString := func(fr *frame, a []value) value {
		name, max := a[0].(string), int(asInt64(a[1]))
		alphabet := ""
		if len(a) > 2 {
			alphabet = a[2].(string)
		}
		if c := X.Concrete; c != nil {
			var bs []int
			if v := c.Strs[name]; len(v) > 0 {
				bs, c.Strs[name] = v[0], v[1:]
			}
			b := make([]byte, len(bs))
			for i, x := range bs {
				b[i] = byte(x)
			}
			return string(b)
		}
		// the length is a structural case split, the bytes are solver variables
		k := X.choose(max + 1)
		bs := make([]value, k)
		for i := range bs {
			c := X.fresh(fmt.Sprintf("%s[%d]", name, i), "Int")
			c.Lo, c.Hi, c.Bounded = 1, 127, true
			if alphabet == "" {
				X.assert(fmt.Sprintf("(and (<= 1 %s) (<= %s 127))", c.T, c.T))
			} else if len(alphabet) == 1 {
				bs[i] = alphabet[0]
				continue
			} else {
				alts := make([]string, 0, len(alphabet))
				seen := map[byte]bool{}
				c.Lo, c.Hi = 255, 0
				for j := 0; j < len(alphabet); j++ {
					if int64(alphabet[j]) < c.Lo {
						c.Lo = int64(alphabet[j])
					}
					if int64(alphabet[j]) > c.Hi {
						c.Hi = int64(alphabet[j])
					}
					if !seen[alphabet[j]] {
						seen[alphabet[j]] = true
						alts = append(alts, fmt.Sprintf("(= %s %d)", c.T, alphabet[j]))
					}
				}
				X.assert(or(alts...))
			}
			bs[i] = c
		}
		X.inputs = append(X.inputs, inputRec{'s', name, append([]value(nil), bs...)})
		return mkStr(bs)
	}
	intrinsics[apiPkg+".NondetString"] = nondetString
	intrinsics[apiPkg+".NondetStringIn"] = nondetString
	intrinsics[apiPkg+".Assume"] = func(fr *frame, a []value) value { X.assume(a[0]); return nil }
	intrinsics[apiPkg+".Assert"] = func(fr *frame, a []value) value { X.assertProp(a[0], conc(a[1])); return nil }
	intrinsics[apiPkg+".MapOrderAll"] = func(fr *frame, a []value) value { MapOrderAll = a[0].(bool); return nil }
	intrinsics[apiPkg+".MapOrder"] = func(fr *frame, a []value) value { MapOrderMode = int(asInt64(a[0])); return nil }
	intrinsics[apiPkg+".Cover"] = func(fr *frame, a []value) value { X.Covered[a[0].(string)]++; return nil }
	intrinsics[apiPkg+".Symbolic"] = func(fr *frame, a []value) value { return X.Concrete == nil }
	intrinsics[apiPkg+".Observe"] = func(fr *frame, a []value) value {
		var parts []string
		for _, x := range a[0].([]value) {
			v := x.(iface).v
			if isSym(v) || isSymStr(v) {
				parts = append(parts, "<sym>")
			} else {
				parts = append(parts, toString(v))
			}
		}
		X.Observed = append(X.Observed, strings.Join(parts, "|"))
		return nil
	}
	for _, n := range []string{"LoadReplay", "DumpDrawn", "Report"} {
		intrinsics[apiPkg+"."+n] = func(fr *frame, a []value) value { return nil }
	}
	intrinsics["regexp.MustCompile"] = func(fr *frame, a []value) value {
		v := value(native{regexp.MustCompile(a[0].(string))})
		return &v
	}
	intrinsics["(*regexp.Regexp).MatchString"] = func(fr *frame, a []value) value {
		re := (*a[0].(*value)).(native).v.(*regexp.Regexp)
		return re.MatchString(a[1].(string))
	}
	intrinsics["strings.TrimSpace"] = func(fr *frame, a []value) value { return strings.TrimSpace(a[0].(string)) }
	intrinsics["strings.ToLower"] = func(fr *frame, a []value) value { return strings.ToLower(a[0].(string)) }
	intrinsics["time.Now"] = func(fr *frame, a []value) value { return structure{uint64(0), int64(0), (*value)(nil)} }
}

type Options struct {
	Interp     func(pkgPath string) bool
	InitPkgs   []*ssa.Package // in dependency order
	MaxSteps   int
	MaxPaths   int      // path budget of this call; what is left is returned in Pending
	Params     map[string]int
	Concrete   *Input
	Canary     bool
	Start      []string // work prefixes to start from (default: the empty prefix)
	BFS        bool     // expand breadth-first (coordinator phase)
	StopAtWork int      // BFS: stop once this many prefixes are open
}

type Report struct {
	Paths       int            `json:"paths"`
	Infeasible  int            `json:"infeasible"`
	Decisions   int            `json:"decisions"`
	Forks       int            `json:"forks"`
	Queries     int            `json:"queries"`
	Obligations int            `json:"obligations"`
	Discharged  int            `json:"discharged"`
	SolverS     float64        `json:"solver_s"`
	WallS       float64        `json:"wall_s"`
	Violations  []Violation    `json:"violations"`
	VCount      map[string]int `json:"vcount"`
	Unsupported []string       `json:"unsupported"`
	Covered     map[string]int `json:"covered"`
	Funcs       map[string]int `json:"funcs"`
	Pending     []string       `json:"pending"`
	Samples     []string       `json:"samples"`
	Observed    []string       `json:"observed,omitempty"`
	MaxStepsSeen int           `json:"max_steps_seen"`
}

// Explore runs harness on every feasible path below the start prefixes
// (re-execution from scratch with a decision prefix per path).
func Explore(prog *ssa.Program, harness *ssa.Function, opt Options, solver *Solver) *Report {
	t0 := time.Now()
	e := &Explorer{S: solver, MaxSteps: opt.MaxSteps, Covered: map[string]int{}, funcs: map[string]int{},
		vcount: map[string]int{}, Params: opt.Params, Canary: opt.Canary}
	X = e
	if len(opt.Start) == 0 {
		e.work = [][]bool{nil}
	}
	for _, s := range opt.Start {
		e.work = append(e.work, parseTrace(s))
	}
	rep := &Report{}
	q0, st0 := solver.Queries, solver.Time
	for len(e.work) > 0 && e.Paths < opt.MaxPaths {
		if opt.BFS && opt.StopAtWork > 0 && len(e.work) >= opt.StopAtWork {
			break
		}
		var pfx []bool
		if opt.BFS {
			pfx, e.work = e.work[0], e.work[1:]
		} else {
			pfx, e.work = e.work[len(e.work)-1], e.work[:len(e.work)-1]
		}
		e.prefix, e.pos, e.trace, e.consts, e.inputs, e.nameCount, e.steps = pfx, 0, nil, nil, nil, map[string]int{}, 0
		e.pc = nil
		e.Observed = nil
		if opt.Concrete != nil {
			c := *opt.Concrete
			cp := newInput()
			for k, v := range c.Bools {
				cp.Bools[k] = append([]bool(nil), v...)
			}
			for k, v := range c.Ints {
				cp.Ints[k] = append([]int(nil), v...)
			}
			for k, v := range c.Strs {
				cp.Strs[k] = append([][]int(nil), v...)
			}
			e.Concrete = cp
		}
		MapOrderAll = false
		MapOrderMode = 0
		resetMonitors()
		solver.send("(push)")
		res := runPath(prog, harness, opt)
		if res == nil {
			e.sample()
		}
		solver.send("(pop)")
		e.Paths++
		if e.steps > rep.MaxStepsSeen {
			rep.MaxStepsSeen = e.steps
		}
		switch r := res.(type) {
		case nil:
		case pathAbort:
			e.Infeasible++
		case unsupported:
			rep.Unsupported = append(rep.Unsupported, r.what)
			if solver.dead {
				solver.Restart()
			}
			e.work = nil // an encoding gap makes the run inconclusive: stop
		case pathPanic:
			// a Go panic of the program under test (or of the engine: replay decides)
			e.Obligations++
			e.record(Violation{Kind: r.kind, Msg: r.msg, Where: r.where, Input: r.input, Trace: traceString(e.trace)})
		}
	}
	for _, w := range e.work {
		rep.Pending = append(rep.Pending, traceString(w))
	}
	rep.Paths, rep.Infeasible, rep.Decisions, rep.Forks = e.Paths, e.Infeasible, e.Decisions, e.Forks
	rep.Obligations, rep.Discharged = e.Obligations, e.Discharged
	rep.Queries, rep.SolverS, rep.WallS = solver.Queries-q0, (solver.Time - st0).Seconds(), time.Since(t0).Seconds()
	rep.Violations, rep.Covered, rep.VCount = e.Violations, e.Covered, e.vcount
	rep.Funcs = e.funcs
	rep.Samples = e.samples
	rep.Observed = e.Observed
	return rep
}

type pathPanic struct {
	kind, msg, where string
	input            *Input
}

func runPath(prog *ssa.Program, harness *ssa.Function, opt Options) (result interface{}) {
	i := &interpreter{
		prog:       prog,
		globals:    make(map[*ssa.Global]*value),
		sizes:      &types.StdSizes{WordSize: 8, MaxAlign: 8},
		goroutines: 1,
		interpPkgs: opt.Interp,
	}
	curInterp = i
	i.runtimeErrorString = rtErrT
	allPkgs := prog.AllPackages()
	if Shadow != nil {
		for _, p := range Shadow.AllPackages() {
			if ShadowPkgs[p.Pkg.Path()] {
				allPkgs = append(allPkgs, p)
			}
		}
	}
	for _, pkg := range allPkgs {
		if !opt.Interp(pkg.Pkg.Path()) {
			continue
		}
		for _, m := range pkg.Members {
			if v, ok := m.(*ssa.Global); ok {
				cell := zero(mustDeref(v.Type()))
				i.globals[v] = &cell
			}
		}
	}
	defer func() {
		if p := recover(); p != nil {
			mk := func(kind, msg string) pathPanic {
				where := X.targetWhere()
				var in *Input
				if X.Concrete != nil {
					in = opt.Concrete
				} else if !X.S.dead {
					_, in = X.queryModel("")
				}
				return pathPanic{kind, msg, where, in}
			}
			switch p := p.(type) {
			case pathAbort, unsupported:
				result = p
			case stepBudget:
				result = mk("hang", "step budget exceeded (unwinding bound) in "+p.fn)
			case targetPanic:
				result = mk("panic", "panic: "+toString(p.v))
			case runtime.Error:
				result = mk("panic", "panic: "+p.Error())
			case string:
				result = mk("panic", "panic: "+p)
			default:
				fmt.Fprintf(os.Stderr, "interpreter crash: %T %v\n", p, p)
				panic(p)
			}
		}
	}()
	inInit = true
	tInit := time.Now()
	for _, pkg := range opt.InitPkgs {
		call(i, nil, token.NoPos, pkg.Func("init"), nil)
	}
	InitTime += time.Since(tInit)
	inInit = false
	call(i, nil, token.NoPos, harness, nil)
	return nil
}

type stepBudget struct{ fn string }

var curInterp *interpreter
var InitTime time.Duration
var inInit bool

// FuncList returns the executed functions of the interpreted universe, sorted.
func FuncList(m map[string]int) []string {
	var out []string
	for f := range m {
		out = append(out, f)
	}
	sort.Strings(out)
	return out
}
