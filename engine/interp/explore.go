package interp

import (
	"fmt"
	"go/token"
	"go/types"
	"os"
	"regexp"
	"runtime"
	"sort"
	"strings"
	"time"

	"golang.org/x/tools/go/ssa"
)

func (i *interpreter) interpreted(fn *ssa.Function) bool {
	pkg := fn.Pkg
	if pkg == nil && fn.Origin() != nil {
		pkg = fn.Origin().Pkg
	}
	if pkg == nil {
		return true // synthetic wrappers, bound methods
	}
	return i.interpPkgs(pkg.Pkg.Path())
}

type native struct{ v interface{} }

type intrinsic func(fr *frame, args []value) value

var intrinsics = map[string]intrinsic{}

const apiPkg = "github.com/markusmobius/go-domdistiller/internal/zzverif"

func init() {
	intrinsics[apiPkg+".NondetBool"] = func(fr *frame, a []value) value { return X.fresh(a[0].(string), "Bool") }
	intrinsics[apiPkg+".NondetInt"] = func(fr *frame, a []value) value { return X.fresh(a[0].(string), "Int") }
	intrinsics[apiPkg+".NondetString"] = func(fr *frame, a []value) value {
		name, max := a[0].(string), int(asInt64(a[1]))
		alphabet := ""
		if len(a) > 2 {
			alphabet = a[2].(string)
		}
		// the length is a case split (fork), the bytes are solver variables
		n := X.fresh(name+".len", "Int")
		X.assert(fmt.Sprintf("(and (<= 0 %s) (<= %s %d))", n.T, n.T, max))
		k := int(concretizeIndex(n, max+1, "length"))
		bs := make([]value, k)
		for i := range bs {
			c := X.fresh(fmt.Sprintf("%s[%d]", name, i), "Int")
			if alphabet == "" {
				X.assert(fmt.Sprintf("(and (<= 1 %s) (<= %s 127))", c.T, c.T))
			} else {
				var alts []string
				for j := 0; j < len(alphabet); j++ {
					alts = append(alts, fmt.Sprintf("(= %s %d)", c.T, alphabet[j]))
				}
				X.assert(or(alts...))
			}
			bs[i] = c
		}
		return mkStr(bs)
	}
	intrinsics[apiPkg+".NondetStringIn"] = intrinsics[apiPkg+".NondetString"]
	intrinsics[apiPkg+".Assume"] = func(fr *frame, a []value) value { X.assume(a[0]); return nil }
	intrinsics[apiPkg+".Assert"] = func(fr *frame, a []value) value { X.assertProp(a[0], a[1].(string)); return nil }
	intrinsics[apiPkg+".MapOrderAll"] = func(fr *frame, a []value) value { MapOrderAll = a[0].(bool); return nil }
	intrinsics[apiPkg+".Cover"] = func(fr *frame, a []value) value { X.Covered[a[0].(string)]++; return nil }
	intrinsics["regexp.MustCompile"] = func(fr *frame, a []value) value {
		v := value(native{regexp.MustCompile(a[0].(string))})
		return &v
	}
	intrinsics["(*regexp.Regexp).MatchString"] = func(fr *frame, a []value) value {
		re := (*a[0].(*value)).(native).v.(*regexp.Regexp)
		return re.MatchString(a[1].(string))
	}
	intrinsics["strings.TrimSpace"] = func(fr *frame, a []value) value { return strings.TrimSpace(a[0].(string)) }
	intrinsics["strings.ToLower"] = func(fr *frame, a []value) value { return strings.ToLower(a[0].(string)) }
	intrinsics["time.Now"] = func(fr *frame, a []value) value { return structure{uint64(0), int64(0), (*value)(nil)} }
}

type Options struct {
	Interp   func(pkgPath string) bool
	InitPkgs []*ssa.Package // in dependency order
	MaxSteps int
	MaxPaths int
}

type Report struct {
	Paths, Infeasible, Decisions, Queries int
	SolverTime, Wall                      time.Duration
	Violations                            []Violation
	Unsupported                           []string
	Covered                               map[string]int
	Funcs                                 []string
}

// Explore runs harness on every feasible path (re-execution from scratch with
// a decision prefix per path).
func Explore(prog *ssa.Program, harness *ssa.Function, opt Options, solver *Solver) *Report {
	t0 := time.Now()
	e := &Explorer{S: solver, MaxSteps: opt.MaxSteps, Covered: map[string]int{}, funcs: map[string]int{}}
	X = e
	e.work = [][]bool{nil}
	if ep := prog.ImportedPackage("errors"); ep != nil {
		errT = types.NewPointer(ep.Type("errorString").Object().Type())
	}
	rep := &Report{}
	for len(e.work) > 0 && e.Paths < opt.MaxPaths {
		pfx := e.work[len(e.work)-1]
		e.work = e.work[:len(e.work)-1]
		e.prefix, e.pos, e.trace, e.consts, e.nameCount, e.steps = pfx, 0, nil, nil, map[string]int{}, 0
		e.pc = nil
		MapOrderAll = false
		frozenCells, frozenMaps = nil, nil
		if Incremental {
			solver.send("(push)")
		}
		res := runPath(prog, harness, opt)
		if Incremental {
			solver.send("(pop)")
		}
		e.Paths++
		switch r := res.(type) {
		case nil:
		case pathAbort:
			e.Infeasible++
		case unsupported:
			rep.Unsupported = append(rep.Unsupported, r.what)
			e.work = nil // an encoding gap makes the run inconclusive: stop
		default:
			e.Violations = append(e.Violations, Violation{Msg: fmt.Sprintf("panic: %v", res), Trace: append([]bool(nil), e.trace...)})
		}
	}
	if len(e.work) > 0 {
		rep.Unsupported = append(rep.Unsupported, fmt.Sprintf("path budget exhausted, %d prefixes pending", len(e.work)))
	}
	rep.Paths, rep.Infeasible, rep.Decisions = e.Paths, e.Infeasible, e.Decisions
	rep.Queries, rep.SolverTime, rep.Wall = solver.Queries, solver.Time, time.Since(t0)
	rep.Violations, rep.Covered = e.Violations, e.Covered
	for f := range e.funcs {
		rep.Funcs = append(rep.Funcs, f)
	}
	sort.Strings(rep.Funcs)
	return rep
}

func runPath(prog *ssa.Program, harness *ssa.Function, opt Options) (result interface{}) {
	i := &interpreter{
		prog:       prog,
		globals:    make(map[*ssa.Global]*value),
		sizes:      &types.StdSizes{WordSize: 8, MaxAlign: 8},
		goroutines: 1,
		interpPkgs: opt.Interp,
	}
	if rt := prog.ImportedPackage("runtime"); rt != nil {
		i.runtimeErrorString = rt.Type("errorString").Object().Type()
	}
	for _, pkg := range prog.AllPackages() {
		if !opt.Interp(pkg.Pkg.Path()) {
			continue
		}
		for _, m := range pkg.Members {
			if v, ok := m.(*ssa.Global); ok {
				cell := zero(mustDeref(v.Type()))
				i.globals[v] = &cell
			}
		}
	}
	defer func() {
		if p := recover(); p != nil {
			switch p := p.(type) {
			case pathAbort, unsupported:
				result = p
			case targetPanic:
				result = "target panic: " + toString(p.v)
			case runtime.Error:
				result = p.Error()
			case string:
				result = p
			default:
				fmt.Fprintf(os.Stderr, "interpreter crash: %T %v\n", p, p)
				panic(p)
			}
		}
	}()
	for _, pkg := range opt.InitPkgs {
		call(i, nil, token.NoPos, pkg.Func("init"), nil)
	}
	call(i, nil, token.NoPos, harness, nil)
	return nil
}
