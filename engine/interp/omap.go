package interp

import (
	"go/types"
	"reflect"
)

// omap is an insertion-ordered map used for every Go map in the target
// program. Deterministic iteration order is required for re-execution.
type omap struct {
	kt   types.Type
	keys []value
	vals []value
}

func makeMap(kt types.Type, reserve int64) value { return &omap{kt: kt} }

func (m *omap) find(k value) int {
	if m == nil {
		return -1
	}
	for i, kk := range m.keys {
		if symEquals(m.kt, kk, k) {
			return i
		}
	}
	return -1
}

func (m *omap) lookup(k value) (value, bool) {
	segMapAccess(m, false)
	if (isSym(k) || isSymStr(k)) && m != nil && len(m.keys) > 0 {
		// one decision for membership; identify the entry only if values differ
		alts := make([]string, len(m.keys))
		same := true
		for i, kk := range m.keys {
			if isSymStr(k) || isSymStr(kk) {
				alts[i] = strEq(k, kk)
			} else {
				alts[i] = "(= " + term(k) + " " + term(kk) + ")"
			}
			if isSym(kk) || isSymStr(kk) || !reflect.DeepEqual(m.vals[i], m.vals[0]) {
				same = false
			}
		}
		if !decideT(or(alts...)) {
			return nil, false
		}
		if same {
			return m.vals[0], true
		}
	}
	if i := m.find(k); i >= 0 {
		return m.vals[i], true
	}
	return nil, false
}

func (m *omap) insert(k, v value) {
	if m == nil {
		panic("assignment to entry in nil map")
	}
	checkMapWrite(m)
	if i := m.find(k); i >= 0 {
		m.vals[i] = v
		return
	}
	m.keys = append(m.keys, k)
	m.vals = append(m.vals, v)
}

func (m *omap) delete(k value) {
	if i := m.find(k); i >= 0 {
		checkMapWrite(m)
		m.keys = append(m.keys[:i:i], m.keys[i+1:]...)
		m.vals = append(m.vals[:i:i], m.vals[i+1:]...)
	}
}

func (m *omap) len() int {
	if m == nil {
		return 0
	}
	return len(m.keys)
}

type omapIter struct {
	m *omap
	// snapshot of keys at range start (Go semantics permit either)
	keys []value
	i    int
}

func (it *omapIter) next() tuple {
	for it.i < len(it.keys) {
		k := it.keys[it.i]
		it.i++
		if v, ok := it.m.lookup(k); ok {
			return tuple{true, k, v}
		}
	}
	return tuple{false, nil, nil}
}
