package interp

import (
	"fmt"
	"regexp"
	"regexp/syntax"
	"strings"
	"unicode"
)

// SymStr is a string of concrete length whose bytes may be symbolic: each
// element is a uint8 or a *Sym of sort Int constrained to [0,127].
// Lengths are made concrete by forking when a symbolic string is created, so
// every string operation reduces to linear integer arithmetic over bytes.
type SymStr struct{ B []value }

func sbool(t string) *Sym { return &Sym{Sort: "Bool", T: t} }
func sint(t string) *Sym  { return &Sym{Sort: "Int", T: t} }

func isStr(v value) bool {
	switch v.(type) {
	case string, *SymStr:
		return true
	}
	return false
}

func bytesOf(v value) []value {
	switch v := v.(type) {
	case string:
		out := make([]value, len(v))
		for i := 0; i < len(v); i++ {
			out[i] = v[i]
		}
		return out
	case *SymStr:
		return v.B
	}
	panic(fmt.Sprintf("bytesOf %T", v))
}

func mkStr(bs []value) value {
	buf := make([]byte, len(bs))
	for i, b := range bs {
		c, ok := b.(uint8)
		if !ok {
			return &SymStr{append([]value(nil), bs...)}
		}
		buf[i] = c
	}
	return string(buf)
}

func and(ts ...string) string {
	var keep []string
	for _, t := range ts {
		if t == "false" {
			return "false"
		}
		if t != "true" {
			keep = append(keep, t)
		}
	}
	switch len(keep) {
	case 0:
		return "true"
	case 1:
		return keep[0]
	}
	return "(and " + strings.Join(keep, " ") + ")"
}

func or(ts ...string) string {
	var keep []string
	for _, t := range ts {
		if t == "true" {
			return "true"
		}
		if t != "false" {
			keep = append(keep, t)
		}
	}
	switch len(keep) {
	case 0:
		return "false"
	case 1:
		return keep[0]
	}
	return "(or " + strings.Join(keep, " ") + ")"
}

func boolVal(t string) value {
	switch t {
	case "true":
		return true
	case "false":
		return false
	}
	return sbool(t)
}

func byteEq(a, b value) string {
	if x, ok := a.(uint8); ok {
		if y, ok := b.(uint8); ok {
			if x == y {
				return "true"
			}
			return "false"
		}
	}
	return "(= " + term(a) + " " + term(b) + ")"
}

// eqAt: bytes of sub equal bytes of s starting at off (off concrete).
func eqAt(s []value, off int, sub []value) string {
	if off < 0 || off+len(sub) > len(s) {
		return "false"
	}
	ts := make([]string, len(sub))
	for i := range sub {
		ts[i] = byteEq(s[off+i], sub[i])
	}
	return and(ts...)
}

func strEq(a, b value) string {
	x, y := bytesOf(a), bytesOf(b)
	if len(x) != len(y) {
		return "false"
	}
	return eqAt(x, 0, y)
}

func inRange(c value, lo, hi int) string {
	if x, ok := c.(uint8); ok {
		if int(x) >= lo && int(x) <= hi {
			return "true"
		}
		return "false"
	}
	t := term(c)
	if lo == hi {
		return fmt.Sprintf("(= %s %d)", t, lo)
	}
	return fmt.Sprintf("(and (<= %d %s) (<= %s %d))", lo, t, t, hi)
}

func isSpaceT(c value) string {
	return or(inRange(c, 9, 13), inRange(c, 32, 32))
}

func lowerByte(c value) value {
	if x, ok := c.(uint8); ok {
		if x >= 'A' && x <= 'Z' {
			return x + 32
		}
		return x
	}
	t := term(c)
	r := sint(fmt.Sprintf("(ite (and (<= 65 %s) (<= %s 90)) (+ %s 32) %s)", t, t, t, t))
	r.Lo, r.Hi, r.Bounded = 0, 255, true
	return r
}

func decideT(t string) bool {
	switch t {
	case "true":
		return true
	case "false":
		return false
	}
	return X.decide(sbool(t))
}

// firstIndex returns the (possibly symbolic) index of the first occurrence.
func firstIndex(s, sub []value) value {
	res := value(-1)
	sym := false
	expr := "(- 1)"
	for off := len(s) - len(sub); off >= 0; off-- {
		c := eqAt(s, off, sub)
		switch c {
		case "true":
			res, sym, expr = off, false, intLit(int64(off))
		case "false":
		default:
			sym = true
			expr = fmt.Sprintf("(ite %s %d %s)", c, off, expr)
		}
	}
	if sym {
		r := sint(expr)
		r.Lo, r.Hi, r.Bounded = -1, int64(len(s)), true
		return r
	}
	return res
}

func strIntrinsic(name string, sym func(a []value) value) {
	nat := intrinsics[name]
	intrinsics[name] = func(fr *frame, a []value) value {
		for _, v := range a {
			if _, ok := v.(*SymStr); ok {
				return sym(a)
			}
			if isSym(v) {
				return sym(a)
			}
			if xs, ok := v.([]value); ok {
				for _, x := range xs {
					if isSymStr(x) || isSym(x) {
						return sym(a)
					}
				}
			}
		}
		if nat == nil {
			panic(unsupported{"no native model for " + name})
		}
		return nat(fr, a)
	}
}

func init() {
	strIntrinsic("strings.HasPrefix", func(a []value) value { return boolVal(eqAt(bytesOf(a[0]), 0, bytesOf(a[1]))) })
	strIntrinsic("strings.HasSuffix", func(a []value) value {
		s, x := bytesOf(a[0]), bytesOf(a[1])
		return boolVal(eqAt(s, len(s)-len(x), x))
	})
	strIntrinsic("strings.Contains", func(a []value) value {
		s, x := bytesOf(a[0]), bytesOf(a[1])
		var alts []string
		for off := 0; off+len(x) <= len(s); off++ {
			alts = append(alts, eqAt(s, off, x))
		}
		return boolVal(or(alts...))
	})
	strIntrinsic("strings.Index", func(a []value) value { return firstIndex(bytesOf(a[0]), bytesOf(a[1])) })
	// position of first occurrence, concretised by forking (leftmost first)
	indexFork := func(s, sub []value) int {
		for off := 0; off+len(sub) <= len(s); off++ {
			if decideT(eqAt(s, off, sub)) {
				return off
			}
		}
		return -1
	}
	strIntrinsic("strings.Cut", func(a []value) value {
		s, sep := bytesOf(a[0]), bytesOf(a[1])
		if i := indexFork(s, sep); i >= 0 {
			return tuple{mkStr(s[:i]), mkStr(s[i+len(sep):]), true}
		}
		return tuple{a[0], "", false}
	})
	strIntrinsic("strings.IndexByte", func(a []value) value { return firstIndex(bytesOf(a[0]), []value{a[1]}) })
	strIntrinsic("strings.LastIndex", func(a []value) value {
		s, sub := bytesOf(a[0]), bytesOf(a[1])
		for off := len(s) - len(sub); off >= 0; off-- {
			if decideT(eqAt(s, off, sub)) {
				return off
			}
		}
		return -1
	})
	strIntrinsic("strings.LastIndexByte", func(a []value) value {
		s := bytesOf(a[0])
		for off := len(s) - 1; off >= 0; off-- {
			if decideT(byteEq(s[off], a[1])) {
				return off
			}
		}
		return -1
	})
	strIntrinsic("strings.Count", func(a []value) value {
		s, sub := bytesOf(a[0]), bytesOf(a[1])
		if len(sub) != 1 {
			panic(unsupported{"strings.Count with multi-byte separator"})
		}
		n := 0
		for i := range s {
			if decideT(byteEq(s[i], sub[0])) {
				n++
			}
		}
		return n
	})
	strIntrinsic("strings.TrimSuffix", func(a []value) value {
		s, x := bytesOf(a[0]), bytesOf(a[1])
		if decideT(eqAt(s, len(s)-len(x), x)) {
			return mkStr(s[:len(s)-len(x)])
		}
		return a[0]
	})
	strIntrinsic("strings.TrimSpace", func(a []value) value {
		s := bytesOf(a[0])
		for len(s) > 0 && decideT(isSpaceT(s[0])) {
			s = s[1:]
		}
		for len(s) > 0 && decideT(isSpaceT(s[len(s)-1])) {
			s = s[:len(s)-1]
		}
		return mkStr(s)
	})
	strIntrinsic("strings.ToLower", func(a []value) value {
		s := bytesOf(a[0])
		out := make([]value, len(s))
		for _, c := range s {
			if x, ok := c.(uint8); ok && x >= 0x80 {
				// Unicode case mapping can change the byte length (U+212A -> k);
				// the byte-wise model is only valid for ASCII
				panic(unsupported{"strings.ToLower of a string mixing symbolic bytes with non-ASCII bytes"})
			}
		}
		for i, c := range s {
			out[i] = lowerByte(c)
		}
		return mkStr(out)
	})
	strIntrinsic("unicode/utf8.RuneCountInString", func(a []value) value { return len(bytesOf(a[0])) })
	strIntrinsic("(*regexp.Regexp).MatchString", func(a []value) value {
		re := (*a[0].(*value)).(native).v.(*regexp.Regexp)
		return boolVal(nfaMatch(re, bytesOf(a[1])))
	})
	strIntrinsic("(*regexp.Regexp).FindStringSubmatch", func(a []value) value {
		re := (*a[0].(*value)).(native).v.(*regexp.Regexp)
		return symFindSubmatch(re, bytesOf(a[1]))
	})
}

// ---------------------------------------------------------------------------
// regular expressions over byte vectors

var progCache = map[string]*syntax.Prog{}

func compileRe(re *regexp.Regexp) *syntax.Prog {
	if p, ok := progCache[re.String()]; ok {
		return p
	}
	p, err := syntax.Parse(re.String(), syntax.Perl)
	if err != nil {
		panic(err)
	}
	prog, err := syntax.Compile(p.Simplify())
	if err != nil {
		panic(err)
	}
	progCache[re.String()] = prog
	return prog
}

func classT(in *syntax.Inst, c value) string {
	rs := in.Rune
	if len(rs) == 1 {
		r := rs[0]
		rs = []rune{r, r}
		if syntax.Flags(in.Arg)&syntax.FoldCase != 0 && unicode.IsLetter(r) {
			rs = []rune{unicode.ToLower(r), unicode.ToLower(r), unicode.ToUpper(r), unicode.ToUpper(r)}
		}
	}
	var alts []string
	for j := 0; j+1 < len(rs); j += 2 {
		if rs[j] > 127 {
			continue
		}
		hi := rs[j+1]
		if hi > 127 {
			hi = 127
		}
		alts = append(alts, inRange(c, int(rs[j]), int(hi)))
	}
	return or(alts...)
}

func wordT(s []value, i int) string {
	if i < 0 || i >= len(s) {
		return "false"
	}
	c := s[i]
	return or(inRange(c, '0', '9'), inRange(c, 'A', 'Z'), inRange(c, 'a', 'z'), inRange(c, '_', '_'))
}

// emptyT: condition under which the empty-width assertion holds at pos.
func emptyT(op syntax.EmptyOp, s []value, pos int) string {
	var cs []string
	if op&syntax.EmptyBeginText != 0 && pos != 0 {
		return "false"
	}
	if op&syntax.EmptyEndText != 0 && pos != len(s) {
		return "false"
	}
	if op&syntax.EmptyBeginLine != 0 && pos != 0 {
		cs = append(cs, inRange(s[pos-1], '\n', '\n'))
	}
	if op&syntax.EmptyEndLine != 0 && pos != len(s) {
		cs = append(cs, inRange(s[pos], '\n', '\n'))
	}
	if op&(syntax.EmptyWordBoundary|syntax.EmptyNoWordBoundary) != 0 {
		a, b := wordT(s, pos-1), wordT(s, pos)
		diff := "(not (= " + a + " " + b + "))"
		if a == "false" || a == "true" || b == "false" || b == "true" {
			// simplify constant sides
			switch {
			case a == "false":
				diff = b
			case b == "false":
				diff = a
			case a == "true":
				diff = "(not " + b + ")"
			case b == "true":
				diff = "(not " + a + ")"
			}
		}
		if op&syntax.EmptyWordBoundary != 0 {
			cs = append(cs, diff)
		} else {
			cs = append(cs, "(not "+diff+")")
		}
	}
	return and(cs...)
}

// nfaMatch returns the condition "re matches somewhere in s" by unrolling the
// compiled program over the (concrete many, symbolic valued) positions.
func nfaMatch(re *regexp.Regexp, s []value) string {
	prog := compileRe(re)
	n := len(s)
	matched := []string{}
	cur := map[int][]string{}
	var add func(set map[int][]string, pc, pos int, cond string, seen map[int]bool)
	add = func(set map[int][]string, pc, pos int, cond string, seen map[int]bool) {
		if cond == "false" {
			return
		}
		in := &prog.Inst[pc]
		switch in.Op {
		case syntax.InstFail:
		case syntax.InstNop, syntax.InstCapture:
			add(set, int(in.Out), pos, cond, seen)
		case syntax.InstAlt, syntax.InstAltMatch:
			add(set, int(in.Out), pos, cond, seen)
			add(set, int(in.Arg), pos, cond, seen)
		case syntax.InstEmptyWidth:
			add(set, int(in.Out), pos, and(cond, emptyT(syntax.EmptyOp(in.Arg), s, pos)), seen)
		case syntax.InstMatch:
			matched = append(matched, cond)
		default:
			set[pc] = append(set[pc], cond)
		}
	}
	for pos := 0; pos <= n; pos++ {
		add(cur, prog.Start, pos, "true", nil)
		next := map[int][]string{}
		if pos < n {
			for pc, conds := range cur {
				in := &prog.Inst[pc]
				c := define(or(conds...))
				var step string
				switch in.Op {
				case syntax.InstRune, syntax.InstRune1:
					step = classT(in, s[pos])
				case syntax.InstRuneAny:
					step = "true"
				case syntax.InstRuneAnyNotNL:
					step = "(not " + inRange(s[pos], '\n', '\n') + ")"
					if step == "(not false)" {
						step = "true"
					} else if step == "(not true)" {
						step = "false"
					}
				default:
					panic(unsupported{"regexp inst " + in.Op.String()})
				}
				add(next, int(in.Out), pos+1, and(c, step), nil)
			}
		}
		cur = next
	}
	return define(or(matched...))
}

// symFindSubmatch: leftmost-first backtracking search; every byte test on a
// symbolic byte is a decision, so priorities and captures are exact.
func symFindSubmatch(re *regexp.Regexp, s []value) value {
	r := symFindIndexFrom(re, s, 0)
	if r == nil {
		return []value(nil)
	}
	out := make([]value, len(r)/2)
	for g := range out {
		if r[2*g] < 0 || r[2*g+1] < 0 {
			out[g] = ""
		} else {
			out[g] = mkStr(s[r[2*g]:r[2*g+1]])
		}
	}
	return out
}

// symFindIndexFrom returns the capture positions of the leftmost-first match
// starting at or after from, or nil.
func symFindIndexFrom(re *regexp.Regexp, s []value, from int) []int {
	prog := compileRe(re)
	n := len(s)
	ncap := prog.NumCap
	var visited map[[2]int]bool
	var m func(pc, pos int, caps []int) []int
	m = func(pc, pos int, caps []int) []int {
		for {
			if visited[[2]int{pc, pos}] {
				return nil
			}
			visited[[2]int{pc, pos}] = true
			in := &prog.Inst[pc]
			switch in.Op {
			case syntax.InstFail:
				return nil
			case syntax.InstMatch:
				caps = append([]int(nil), caps...)
				caps[1] = pos
				return caps
			case syntax.InstNop:
				pc = int(in.Out)
			case syntax.InstCapture:
				if int(in.Arg) < len(caps) {
					c2 := append([]int(nil), caps...)
					c2[in.Arg] = pos
					caps = c2
				}
				pc = int(in.Out)
			case syntax.InstAlt, syntax.InstAltMatch:
				if r := m(int(in.Out), pos, caps); r != nil {
					return r
				}
				pc = int(in.Arg)
			case syntax.InstEmptyWidth:
				if !decideT(emptyT(syntax.EmptyOp(in.Arg), s, pos)) {
					return nil
				}
				pc = int(in.Out)
			case syntax.InstRune, syntax.InstRune1:
				if pos >= n || !decideT(classT(in, s[pos])) {
					return nil
				}
				pc, pos = int(in.Out), pos+1
			case syntax.InstRuneAny:
				if pos >= n {
					return nil
				}
				pc, pos = int(in.Out), pos+1
			case syntax.InstRuneAnyNotNL:
				if pos >= n || decideT(inRange(s[pos], '\n', '\n')) {
					return nil
				}
				pc, pos = int(in.Out), pos+1
			default:
				panic(unsupported{"regexp inst " + in.Op.String()})
			}
		}
	}
	for start := from; start <= n; start++ {
		visited = map[[2]int]bool{}
		caps := make([]int, ncap)
		for i := range caps {
			caps[i] = -1
		}
		caps[0] = start
		if r := m(prog.Start, start, caps); r != nil {
			return r
		}
	}
	return nil
}

// allMatches follows regexp.(*Regexp).allMatches: successive non-overlapping
// matches, an empty match adjacent to the previous match is skipped.
func allMatches(re *regexp.Regexp, s []value, n int) [][]int {
	var out [][]int
	pos, prevEnd := 0, -1
	for pos <= len(s) && (n < 0 || len(out) < n) {
		m := symFindIndexFrom(re, s, pos)
		if m == nil {
			break
		}
		accept := true
		if m[1] == m[0] { // empty match
			if m[0] == prevEnd {
				accept = false
			}
			pos = m[1] + 1
		} else {
			pos = m[1]
		}
		prevEnd = m[1]
		if accept {
			out = append(out, m)
		}
	}
	return out
}

func expandTemplate(tmpl string, s []value, m []int) []value {
	var out []value
	for i := 0; i < len(tmpl); i++ {
		if tmpl[i] == '$' && i+1 < len(tmpl) && tmpl[i+1] >= '0' && tmpl[i+1] <= '9' {
			g := int(tmpl[i+1] - '0')
			if 2*g+1 < len(m) && m[2*g] >= 0 {
				out = append(out, s[m[2*g]:m[2*g+1]]...)
			}
			i++
			continue
		}
		if tmpl[i] == '$' {
			panic(unsupported{"replacement template " + tmpl})
		}
		out = append(out, tmpl[i])
	}
	return out
}

func init() {
	rxOf := func(v value) *regexp.Regexp { return (*v.(*value)).(native).v.(*regexp.Regexp) }
	strIntrinsic("(*regexp.Regexp).FindAllStringIndex", func(a []value) value {
		var out []value
		for _, m := range allMatches(rxOf(a[0]), bytesOf(a[1]), int(asInt64(a[2]))) {
			out = append(out, []value{m[0], m[1]})
		}
		return out
	})
	strIntrinsic("(*regexp.Regexp).FindAllString", func(a []value) value {
		s := bytesOf(a[1])
		var out []value
		for _, m := range allMatches(rxOf(a[0]), s, int(asInt64(a[2]))) {
			out = append(out, mkStr(s[m[0]:m[1]]))
		}
		return out
	})
	strIntrinsic("(*regexp.Regexp).ReplaceAllString", func(a []value) value {
		s := bytesOf(a[1])
		tmpl := conc(a[2])
		var out []value
		last := 0
		for _, m := range allMatches(rxOf(a[0]), s, -1) {
			out = append(out, s[last:m[0]]...)
			out = append(out, expandTemplate(tmpl, s, m)...)
			last = m[1]
		}
		out = append(out, s[last:]...)
		return mkStr(out)
	})
	strIntrinsic("(*regexp.Regexp).Split", func(a []value) value {
		s := bytesOf(a[1])
		if int(asInt64(a[2])) >= 0 {
			panic(unsupported{"regexp.Split with n>=0"})
		}
		if len(s) == 0 {
			return []value{""}
		}
		// regexp.(*Regexp).Split, n < 0
		out := []value{}
		beg, end := 0, 0
		for _, m := range allMatches(rxOf(a[0]), s, -1) {
			end = m[0]
			if m[1] != 0 {
				out = append(out, mkStr(s[beg:end]))
			}
			beg = m[1]
		}
		if end != len(s) {
			out = append(out, mkStr(s[beg:]))
		}
		return out
	})
	inSet := func(c value, set string) string {
		var alts []string
		for i := 0; i < len(set); i++ {
			alts = append(alts, inRange(c, int(set[i]), int(set[i])))
		}
		return or(alts...)
	}
	strIntrinsic("strings.Trim", func(a []value) value {
		s, set := bytesOf(a[0]), conc(a[1])
		for len(s) > 0 && decideT(inSet(s[0], set)) {
			s = s[1:]
		}
		for len(s) > 0 && decideT(inSet(s[len(s)-1], set)) {
			s = s[:len(s)-1]
		}
		return mkStr(s)
	})
	strIntrinsic("strings.Split", func(a []value) value {
		s, sep := bytesOf(a[0]), bytesOf(a[1])
		if len(sep) == 0 {
			panic(unsupported{"strings.Split with empty separator"})
		}
		var out []value
		beg := 0
		for off := 0; off+len(sep) <= len(s); {
			if decideT(eqAt(s, off, sep)) {
				out = append(out, mkStr(s[beg:off]))
				off += len(sep)
				beg = off
			} else {
				off++
			}
		}
		return append(out, mkStr(s[beg:]))
	})
	strIntrinsic("strings.Fields", func(a []value) value {
		s := bytesOf(a[0])
		var out []value
		beg := -1
		for i := 0; i <= len(s); i++ {
			sp := true
			if i < len(s) {
				sp = decideT(isSpaceT(s[i]))
			}
			if sp {
				if beg >= 0 {
					out = append(out, mkStr(s[beg:i]))
					beg = -1
				}
			} else if beg < 0 {
				beg = i
			}
		}
		return out
	})
	strIntrinsic("strings.Join", func(a []value) value {
		parts := a[0].([]value)
		var out []value
		for i, p := range parts {
			if i > 0 {
				out = append(out, bytesOf(a[1])...)
			}
			out = append(out, bytesOf(p)...)
		}
		return mkStr(out)
	})
	strIntrinsic("strings.Replace", func(a []value) value {
		s, old, nw, n := bytesOf(a[0]), bytesOf(a[1]), bytesOf(a[2]), int(asInt64(a[3]))
		if len(old) == 0 {
			panic(unsupported{"strings.Replace with empty old"})
		}
		var out []value
		for off := 0; off < len(s); {
			if n != 0 && off+len(old) <= len(s) && decideT(eqAt(s, off, old)) {
				out = append(out, nw...)
				off += len(old)
				n--
			} else {
				out = append(out, s[off])
				off++
			}
		}
		return mkStr(out)
	})
	strIntrinsic("strings.TrimPrefix", func(a []value) value {
		s, x := bytesOf(a[0]), bytesOf(a[1])
		if decideT(eqAt(s, 0, x)) {
			return mkStr(s[len(x):])
		}
		return a[0]
	})
}

func unusedTail() value {
	return []value(nil)
}

func init() {
	// ReplaceAllStringFunc on symbolic bytes: matches found by the decision-
	// based matcher, the replacement function is interpreted on each match.
	nat := intrinsics["(*regexp.Regexp).ReplaceAllStringFunc"]
	intrinsics["(*regexp.Regexp).ReplaceAllStringFunc"] = func(fr *frame, a []value) value {
		if !isSymStr(a[1]) {
			return nat(fr, a)
		}
		re := (*a[0].(*value)).(native).v.(*regexp.Regexp)
		s := bytesOf(a[1])
		var out []value
		last := 0
		for _, m := range allMatches(re, s, -1) {
			out = append(out, s[last:m[0]]...)
			r := call(fr.i, fr, 0, a[2], []value{mkStr(s[m[0]:m[1]])})
			out = append(out, bytesOf(r)...)
			last = m[1]
		}
		out = append(out, s[last:]...)
		return mkStr(out)
	}
}
