package interp

// Translation validation of the engine's environment models (DESIGN §2.9):
// every symbolic model of a library function is run on inputs whose bytes are
// SOLVER VARIABLES pinned to concrete values (so the SMT terms and the
// decision logic are exercised, not constant folding) and compared with the
// real library function. Sampling is used only here.
//
//   GOSX_SELFTEST_REPO=/repo go test ./interp -run SelfTest
//
// Patterns are collected from the repository's sources at test time.

import (
	"bytes"
	"fmt"
	"go/ast"
	"go/parser"
	"go/token"
	"math/rand"
	"os"
	"path/filepath"
	"reflect"
	"regexp"
	"strconv"
	"strings"
	"testing"

	"github.com/andybalholm/cascadia"
	"golang.org/x/net/html"
)

func selftestSolver(t *testing.T) *Solver {
	s := NewSolver("z3-new", "-in")
	X = &Explorer{S: s, Covered: map[string]int{}, funcs: map[string]int{}, vcount: map[string]int{}, nameCount: map[string]int{}}
	return s
}

// pinned returns a string value whose bytes are fresh solver variables
// asserted equal to the bytes of s (non-ASCII bytes stay concrete).
func pinned(s string) value {
	bs := make([]value, len(s))
	for i := 0; i < len(s); i++ {
		if s[i] >= 0x80 || s[i] == 0 {
			bs[i] = s[i]
			continue
		}
		c := X.fresh("b", "Int")
		X.assert(fmt.Sprintf("(= %s %d)", c.T, s[i]))
		bs[i] = c
	}
	if len(bs) == 0 {
		return ""
	}
	return &SymStr{bs}
}

// concretize evaluates a (possibly symbolic) value under the pinned model.
func concretize(t *testing.T, v value) interface{} {
	switch x := v.(type) {
	case *SymStr:
		out := make([]byte, len(x.B))
		for i, b := range x.B {
			switch bb := b.(type) {
			case uint8:
				out[i] = bb
			case *Sym:
				out[i] = byte(evalInt(t, bb.T))
			}
		}
		return string(out)
	case *Sym:
		if x.Sort == "Bool" {
			return X.query(x.T) == "sat"
		}
		return evalInt(t, x.T)
	case []value:
		var out []interface{}
		for _, e := range x {
			out = append(out, concretize(t, e))
		}
		return out
	case tuple:
		var out []interface{}
		for _, e := range x {
			out = append(out, concretize(t, e))
		}
		return out
	case int:
		return x
	case int64:
		return int(x)
	case iface:
		if x.t == nil {
			return nil
		}
		return "<iface>"
	}
	return v
}

func evalInt(t *testing.T, term string) int {
	X.S.send("(push)")
	if r := X.S.Check(); r != "sat" {
		t.Fatalf("pinned path condition is %s", r)
	}
	m := parseModel(X.S.GetValue([]string{term}), []string{term})
	X.S.send("(pop)")
	n, err := strconv.Atoi(m[term])
	if err != nil {
		t.Fatalf("cannot evaluate %s: %v", term, m)
	}
	return n
}

func withPath(f func()) {
	X.prefix, X.pos, X.trace, X.work, X.consts, X.inputs = nil, 0, nil, nil, nil, nil
	X.nameCount = map[string]int{}
	X.S.send("(push)")
	defer X.S.send("(pop)")
	f()
}

func repoPatterns(t *testing.T) []string {
	root := os.Getenv("GOSX_SELFTEST_REPO")
	if root == "" {
		root = "/repo"
	}
	seen := map[string]bool{}
	var out []string
	fset := token.NewFileSet()
	filepath.Walk(root, func(p string, info os.FileInfo, err error) error {
		if err != nil || info.IsDir() || !strings.HasSuffix(p, ".go") || strings.HasSuffix(p, "_test.go") {
			return nil
		}
		f, err := parser.ParseFile(fset, p, nil, 0)
		if err != nil {
			return nil
		}
		ast.Inspect(f, func(n ast.Node) bool {
			c, ok := n.(*ast.CallExpr)
			if !ok || len(c.Args) != 1 {
				return true
			}
			sel, ok := c.Fun.(*ast.SelectorExpr)
			if !ok || sel.Sel.Name != "MustCompile" {
				return true
			}
			lit, ok := c.Args[0].(*ast.BasicLit)
			if !ok {
				return true
			}
			s, err := strconv.Unquote(lit.Value)
			if err == nil && !seen[s] {
				seen[s] = true
				out = append(out, s)
			}
			return true
		})
		return nil
	})
	return out
}

var sampleWords = []string{"", "a", "next", "Next page", "prev", "1", "12", " 3 ", "page=2", "/a/b/3", "display:none", "DISPLAY: None;", "visibility:hidden",
	"x - y", "a | b", "Site: title", "a » b", "foo-ad-bar", "sidebar", "comment", "article-body", "byline", "http://ogp.me/ns#", "og: http://ogp.me/ns# ",
	"xmlns:og", "s1.png 1x, s2.png 2x", "a,b 2x", "first", "last", "«", "2 of 3", "print", "pagination", "pager", "[3]", "p. 4", "?!.", "it's", "a b",
	"January 2, 2006", "10:30", "width=3", "100%", "a\nb", "\t", "(x)", "x.com", "javascript:void(0)", "action=edit&section=1"}

func randomStrings(r *rand.Rand, n int) []string {
	alpha := "ab 1-|:/>;,.?!=#\n\tN»x%(&"
	var out []string
	for i := 0; i < n; i++ {
		l := r.Intn(9)
		b := make([]byte, 0, l)
		for j := 0; j < l; j++ {
			b = append(b, alpha[r.Intn(len(alpha))])
		}
		out = append(out, string(b))
	}
	return out
}

func TestSelfTestRegexps(t *testing.T) {
	s := selftestSolver(t)
	defer s.Close()
	pats := repoPatterns(t)
	if len(pats) < 40 {
		t.Fatalf("only %d patterns found in the repository", len(pats))
	}
	r := rand.New(rand.NewSource(1))
	inputs := append(append([]string{}, sampleWords...), randomStrings(r, 60)...)
	checked := 0
	for _, p := range pats {
		re := regexp.MustCompile(p)
		for _, in := range inputs {
			if len(in) > 24 {
				continue
			}
			hasHigh := false
			for i := 0; i < len(in); i++ {
				if in[i] >= 0x80 {
					hasHigh = true
				}
			}
			if hasHigh {
				continue // symbolic bytes are ASCII; non-ASCII text goes through the real library
			}
			withPath(func() {
				v := pinned(in)
				bs := bytesOf(v)
				// MatchString
				got := X.query(nfaMatch(re, bs)) == "sat"
				if want := re.MatchString(in); got != want {
					t.Errorf("MatchString(%q, %q): model %v, regexp %v", p, in, got, want)
				}
				// FindStringSubmatchIndex
				gi := symFindIndexFrom(re, bs, 0)
				wi := re.FindStringSubmatchIndex(in)
				if !reflect.DeepEqual(gi, wi) && !(len(gi) == 0 && len(wi) == 0) {
					t.Errorf("FindStringSubmatchIndex(%q, %q): model %v, regexp %v", p, in, gi, wi)
				}
				checked++
			})
			withPath(func() {
				v := pinned(in)
				bs := bytesOf(v)
				var gm [][]int
				for _, m := range allMatches(re, bs, -1) {
					gm = append(gm, m[:2])
				}
				wm := re.FindAllStringIndex(in, -1)
				if !reflect.DeepEqual(gm, wm) && !(len(gm) == 0 && len(wm) == 0) {
					t.Errorf("FindAllStringIndex(%q, %q): model %v, regexp %v", p, in, gm, wm)
				}
			})
			for _, name := range []string{"ReplaceAllString", "Split"} {
				withPath(func() {
					v := pinned(in)
					cell := value(native{re})
					if name == "ReplaceAllString" {
						g := concretize(t, intrinsics["(*regexp.Regexp).ReplaceAllString"](nil, []value{&cell, v, "<$1>"}))
						if w := re.ReplaceAllString(in, "<$1>"); g != w {
							t.Errorf("ReplaceAllString(%q, %q): model %q, regexp %q", p, in, g, w)
						}
					} else {
						g := concretize(t, intrinsics["(*regexp.Regexp).Split"](nil, []value{&cell, v, -1}))
						var w []interface{}
						for _, x := range re.Split(in, -1) {
							w = append(w, x)
						}
						if !reflect.DeepEqual(g, w) {
							t.Errorf("Split(%q, %q): model %#v, regexp %#v", p, in, g, w)
						}
					}
				})
			}
		}
	}
	t.Logf("%d patterns x %d inputs: %d (pattern, input) pairs checked for MatchString/Find/FindAll/Replace/Split", len(pats), len(inputs), checked)
	os.WriteFile("/tmp/gosx_selftest_regexps.txt", []byte(fmt.Sprintf("%d %d %d\n", len(pats), len(inputs), checked)), 0o644)
}

func TestSelfTestStrings(t *testing.T) {
	s := selftestSolver(t)
	defer s.Close()
	r := rand.New(rand.NewSource(2))
	inputs := append(append([]string{}, sampleWords...), randomStrings(r, 80)...)
	subs := []string{"a", " ", "/", ": ", "x", "-", "ab", "1", "=", "javascript:", "none"}
	type fn struct {
		name string
		real func(a, b string) interface{}
		args int
	}
	list := func(xs []string) interface{} {
		var out []interface{}
		for _, x := range xs {
			out = append(out, x)
		}
		return out
	}
	fns := []fn{
		{"strings.HasPrefix", func(a, b string) interface{} { return strings.HasPrefix(a, b) }, 2},
		{"strings.HasSuffix", func(a, b string) interface{} { return strings.HasSuffix(a, b) }, 2},
		{"strings.Contains", func(a, b string) interface{} { return strings.Contains(a, b) }, 2},
		{"strings.Index", func(a, b string) interface{} { return strings.Index(a, b) }, 2},
		{"strings.LastIndex", func(a, b string) interface{} { return strings.LastIndex(a, b) }, 2},
		{"strings.TrimSuffix", func(a, b string) interface{} { return strings.TrimSuffix(a, b) }, 2},
		{"strings.TrimPrefix", func(a, b string) interface{} { return strings.TrimPrefix(a, b) }, 2},
		{"strings.Split", func(a, b string) interface{} { return list(strings.Split(a, b)) }, 2},
		{"strings.TrimSpace", func(a, b string) interface{} { return strings.TrimSpace(a) }, 1},
		{"strings.ToLower", func(a, b string) interface{} { return strings.ToLower(a) }, 1},
		{"strings.Fields", func(a, b string) interface{} { return list(strings.Fields(a)) }, 1},
	}
	checked := 0
	for _, f := range fns {
		for _, in := range inputs {
			ascii := true
			for i := 0; i < len(in); i++ {
				if in[i] >= 0x80 {
					ascii = false
				}
			}
			if !ascii || len(in) > 20 {
				continue
			}
			for si, sub := range subs {
				if f.args == 1 && si > 0 {
					break
				}
				withPath(func() {
					args := []value{pinned(in)}
					if f.args == 2 {
						args = append(args, sub)
					}
					g := concretize(t, intrinsics[f.name](nil, args))
					w := f.real(in, sub)
					if !reflect.DeepEqual(g, w) && fmt.Sprint(g) != fmt.Sprint(w) {
						t.Errorf("%s(%q, %q): model %#v, library %#v", f.name, in, sub, g, w)
					}
					checked++
				})
			}
		}
	}
	// Cut, Replace, Count, Atoi
	for _, in := range inputs {
		if len(in) > 16 || strings.IndexFunc(in, func(r rune) bool { return r >= 0x80 }) >= 0 {
			continue
		}
		for _, sub := range subs[:6] {
			withPath(func() {
				g := concretize(t, intrinsics["strings.Cut"](nil, []value{pinned(in), sub})).([]interface{})
				a, b, ok := strings.Cut(in, sub)
				if g[0] != a || g[1] != b || g[2] != ok {
					t.Errorf("Cut(%q,%q): model %v, library %q %q %v", in, sub, g, a, b, ok)
				}
			})
			withPath(func() {
				g := concretize(t, intrinsics["strings.Replace"](nil, []value{pinned(in), sub, "ZZ", 1}))
				if w := strings.Replace(in, sub, "ZZ", 1); g != w {
					t.Errorf("Replace(%q,%q): model %q, library %q", in, sub, g, w)
				}
			})
			checked += 2
		}
		withPath(func() {
			g := concretize(t, intrinsics["strconv.Atoi"](nil, []value{pinned(in)})).([]interface{})
			n, err := strconv.Atoi(in)
			if (err != nil) != (g[1] != nil) || (err == nil && g[0] != n) {
				t.Errorf("Atoi(%q): model %v, library %d %v", in, g, n, err)
			}
			checked++
		})
	}
	t.Logf("%d string-model comparisons", checked)
}

// ---- html.Render and selector matching on random trees

func randomTree(r *rand.Rand) *html.Node {
	tags := []string{"div", "p", "span", "a", "img", "ul", "li", "table", "tr", "td", "pre", "script", "textarea", "br", "figure", "figcaption", "meta", "param", "iframe", "noscript"}
	texts := []string{"plain", "a < b & c > d", "\"q\" 'r'", "\nline", "x\ry", "", "-->", "a--b>"}
	keys := []string{"class", "id", "href", "rel", "property", "name", "srcset", "itemprop", "itemscope", "data-x", "title", "value"}
	vals := []string{"", "author", "movie", "og:title", "a b", "sidebar main", "x\"y", "<&>", "dateline", "byline-name"}
	var build func(depth int) *html.Node
	build = func(depth int) *html.Node {
		switch r.Intn(6) {
		case 0:
			return &html.Node{Type: html.TextNode, Data: texts[r.Intn(len(texts))]}
		case 1:
			return &html.Node{Type: html.CommentNode, Data: texts[r.Intn(len(texts))]}
		}
		n := &html.Node{Type: html.ElementNode, Data: tags[r.Intn(len(tags))]}
		for i := r.Intn(3); i > 0; i-- {
			n.Attr = append(n.Attr, html.Attribute{Key: keys[r.Intn(len(keys))], Val: vals[r.Intn(len(vals))]})
		}
		if voidElements[n.Data] {
			return n
		}
		if depth > 0 {
			for i := r.Intn(4); i > 0; i-- {
				c := build(depth - 1)
				if (n.Data == "script" || n.Data == "textarea") && c.Type != html.TextNode {
					continue
				}
				n.AppendChild(c)
			}
		}
		return n
	}
	root := &html.Node{Type: html.ElementNode, Data: "body"}
	for i := 0; i < 3; i++ {
		root.AppendChild(build(3))
	}
	return root
}

// pinTree replaces every string of the model tree by a pinned symbolic string.
func pinTree(p *value) {
	s := (*p).(structure)
	if asInt64(s[5]) != 3 { // not an element: Data is text
		if d, ok := s[7].(string); ok {
			s[7] = pinned(d)
		}
	}
	for _, a := range s[9].([]value) {
		as := a.(structure)
		if d, ok := as[2].(string); ok {
			as[2] = pinned(d)
		}
	}
	for c := np(s[1]); c != nil; c = np((*c).(structure)[4]) {
		pinTree(c)
	}
}

func TestSelfTestRenderAndSelectors(t *testing.T) {
	s := selftestSolver(t)
	defer s.Close()
	r := rand.New(rand.NewSource(3))
	selectors := []string{"[srcset]", "img,source", "meta[property]", "img,source,track,video", "a[rel=author],link[rel=author]", "[itemprop],[itemscope]", "a[href]",
		"thead", "title", "html", "head", "h1", ".dateline", ".byline-name", "img", `param[name="movie"]`, "noscript", "*", "table", "body > div > table, span > table", "div p", "ul > li", "meta[property^=og]", "td a[href]"}
	trees, sels := 0, 0
	for i := 0; i < 60; i++ {
		real := randomTree(r)
		var want bytes.Buffer
		html.Render(&want, real)
		withPath(func() {
			nm := newNodeMap()
			model := nm.model(real)
			// bridge round trip
			var back bytes.Buffer
			html.Render(&back, newNodeMap().real(model))
			if back.String() != want.String() {
				t.Errorf("bridge round trip changed the tree:\n%s\n%s", want.String(), back.String())
			}
			// selectors on the concrete model tree vs cascadia
			for _, sel := range selectors {
				parsed, ok := parseSelectors(sel)
				if !ok {
					t.Errorf("selector %q not supported by the engine's matcher", sel)
					continue
				}
				var got []*html.Node
				for _, m := range selQueryAll(model, parsed, false) {
					got = append(got, nm.toReal[m.(*value)])
				}
				cs, err := cascadia.ParseGroup(sel)
				if err != nil {
					t.Fatalf("cascadia rejects %q", sel)
				}
				wantNodes := cascadia.QueryAll(real, cs)
				if !reflect.DeepEqual(got, wantNodes) && !(len(got) == 0 && len(wantNodes) == 0) {
					t.Errorf("selector %q: engine matcher found %d nodes, cascadia %d, on %s", sel, len(got), len(wantNodes), want.String())
				}
				sels++
			}
			// symbolic-aware render with pinned bytes vs html.Render
			pinTree(model)
			if !subtreeSymbolic(model) {
				return
			}
			got := concretize(t, symRender(model))
			if got != want.String() {
				t.Errorf("symbolic render differs from html.Render:\n%q\n%q", got, want.String())
			}
			// selectors with symbolic attribute values
			for _, sel := range selectors {
				parsed, _ := parseSelectors(sel)
				n := len(selQueryAll(model, parsed, false))
				cs, _ := cascadia.ParseGroup(sel)
				if w := len(cascadia.QueryAll(real, cs)); n != w {
					t.Errorf("selector %q on pinned symbolic attributes: engine %d, cascadia %d", sel, n, w)
				}
			}
			trees++
		})
	}
	t.Logf("%d random trees rendered symbolically, %d selector comparisons", trees, sels)
}

// ---- node surgery transcription vs the real x/net/html methods

func TestSelfTestNodeSurgery(t *testing.T) {
	s := selftestSolver(t)
	defer s.Close()
	r := rand.New(rand.NewSource(4))
	for i := 0; i < 200; i++ {
		real := randomTree(r)
		nm := newNodeMap()
		model := nm.model(real)
		// collect element nodes
		var elems []*html.Node
		var walk func(n *html.Node)
		walk = func(n *html.Node) {
			if n.Type == html.ElementNode {
				elems = append(elems, n)
			}
			for c := n.FirstChild; c != nil; c = c.NextSibling {
				walk(c)
			}
		}
		walk(real)
		a := elems[r.Intn(len(elems))]
		if a.FirstChild == nil || a == real {
			continue
		}
		// detach a child, then re-insert it before another child or append it
		c := a.FirstChild
		for k := r.Intn(3); k > 0 && c.NextSibling != nil; k-- {
			c = c.NextSibling
		}
		mc, ma := nm.toModel[c], nm.toModel[a]
		a.RemoveChild(c)
		intrinsics["(*golang.org/x/net/html.Node).RemoveChild"](nil, []value{ma, mc})
		if a.FirstChild != nil && r.Intn(2) == 0 {
			intrinsics["(*golang.org/x/net/html.Node).InsertBefore"](nil, []value{ma, mc, nm.toModel[a.FirstChild]})
			a.InsertBefore(c, a.FirstChild)
		} else {
			a.AppendChild(c)
			intrinsics["(*golang.org/x/net/html.Node).AppendChild"](nil, []value{ma, mc})
		}
		var w, g bytes.Buffer
		html.Render(&w, real)
		html.Render(&g, newNodeMap().real(model))
		if w.String() != g.String() {
			t.Fatalf("node surgery transcription differs from x/net/html:\n%s\n%s", w.String(), g.String())
		}
	}
}
