package interp

// Concurrent segments: goroutines spawned by the code under test run to
// completion at their spawn point; between a spawn and the next
// sync.WaitGroup.Wait the child segments and the parent's continuation are
// "live" at the same time. Two live segments touching the same cell (write/
// write) or the same map (write/any access) without holding a mutex is a
// candidate data race, confirmed natively under the race detector.

type segment struct {
	id     int
	cells  map[*value]bool
	mapsW  map[*omap]bool
	mapsR  map[*omap]bool
}

var liveSegs []*segment // finished children that have not been joined yet
var curSeg *segment     // segment being executed (nil: no spawn outstanding)
var segCount int

func newSegment() *segment {
	segCount++
	return &segment{id: segCount, cells: map[*value]bool{}, mapsW: map[*omap]bool{}, mapsR: map[*omap]bool{}}
}

func resetSegments() { liveSegs, curSeg, segCount = nil, nil, 0 }

func runSegment(f func()) {
	parent := curSeg
	child := newSegment()
	curSeg = child
	defer func() {
		curSeg = parent
		liveSegs = append(liveSegs, child)
		if curSeg == nil {
			// the parent's continuation is a segment of its own from now on
			curSeg = newSegment()
		}
	}()
	f()
}

func joinSegments() {
	liveSegs = nil
	curSeg = nil
}

func raceCandidate(what string) {
	X.addViolation("global", "unsynchronised concurrent access to "+what+" by goroutines of "+X.targetFunc(), X.targetWhere())
}

func segCellWrite(addr *value) {
	if curSeg == nil || syncDepth > 0 {
		return
	}
	for _, s := range liveSegs {
		if s != curSeg && s.cells[addr] {
			raceCandidate("a memory cell")
			delete(s.cells, addr)
		}
	}
	curSeg.cells[addr] = true
}

func segMapAccess(m *omap, write bool) {
	if curSeg == nil || syncDepth > 0 || m == nil {
		return
	}
	for _, s := range liveSegs {
		if s == curSeg {
			continue
		}
		if s.mapsW[m] || (write && s.mapsR[m]) {
			raceCandidate("a map")
			delete(s.mapsW, m)
			delete(s.mapsR, m)
		}
	}
	if write {
		curSeg.mapsW[m] = true
	} else {
		curSeg.mapsR[m] = true
	}
}

func init() {
	intrinsics["(*sync.WaitGroup).Add"] = func(fr *frame, a []value) value { return nil }
	intrinsics["(*sync.WaitGroup).Done"] = func(fr *frame, a []value) value { return nil }
	intrinsics["(*sync.WaitGroup).Wait"] = func(fr *frame, a []value) value { joinSegments(); return nil }
}
