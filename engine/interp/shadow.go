package interp

import (
	"go/types"

	"golang.org/x/tools/go/ssa"
)

// Shadow is a second SSA program holding the packages that are interpreted
// from source although the code under test sees them only through export data
// (net/url, path). Loading them as roots of the main program would force
// go/packages to type-check every package that depends on them (most of the
// standard library) from source. A call to a body-less function of the main
// program is redirected to the function of the same name here; values are
// untyped boxes, so only type identity at interface boundaries differs, and
// lookupMethod resolves methods of shadow types in the shadow program.
var Shadow *ssa.Program

// ShadowPkgs lists the import paths served by Shadow.
var ShadowPkgs = map[string]bool{}

var shadowCache = map[*ssa.Function]*ssa.Function{}

func typeInShadow(t types.Type) bool {
	for {
		switch tt := t.(type) {
		case *types.Pointer:
			t = tt.Elem()
			continue
		case *types.Named:
			if tt.Obj().Pkg() == nil || !ShadowPkgs[tt.Obj().Pkg().Path()] {
				return false
			}
			sp := Shadow.ImportedPackage(tt.Obj().Pkg().Path())
			return sp != nil && sp.Pkg == tt.Obj().Pkg()
		}
		return false
	}
}

func shadowLookup(fn *ssa.Function) *ssa.Function {
	if Shadow == nil {
		return nil
	}
	if r, ok := shadowCache[fn]; ok {
		return r
	}
	var res *ssa.Function
	defer func() { shadowCache[fn] = res }()
	obj, _ := fn.Object().(*types.Func)
	if obj == nil || obj.Pkg() == nil || !ShadowPkgs[obj.Pkg().Path()] {
		return nil
	}
	sp := Shadow.ImportedPackage(obj.Pkg().Path())
	if sp == nil {
		return nil
	}
	sig := obj.Type().(*types.Signature)
	if sig.Recv() == nil {
		res = sp.Func(obj.Name())
		return res
	}
	rt := sig.Recv().Type()
	ptr := false
	if p, ok := rt.(*types.Pointer); ok {
		rt, ptr = p.Elem(), true
	}
	named, ok := rt.(*types.Named)
	if !ok {
		return nil
	}
	m := sp.Type(named.Obj().Name())
	if m == nil {
		return nil
	}
	var T types.Type = m.Type()
	if ptr {
		T = types.NewPointer(T)
	}
	res = Shadow.LookupMethod(T, sp.Pkg, obj.Name())
	return res
}
