package interp

import "fmt"

// Write-set monitor: Freeze marks every cell reachable from the given values;
// a later store into a marked cell is a violation of "caller-owned arguments
// are never modified" / non-interference.

var frozenCells map[*value]bool
var frozenMaps map[*omap]bool

func freezeValue(v value, seen map[*value]bool) {
	switch v := v.(type) {
	case *value:
		if v == nil || seen[v] {
			return
		}
		seen[v] = true
		frozenCells[v] = true
		freezeInner(v, seen)
	case iface:
		freezeValue(v.v, seen)
	case []value:
		for i := range v {
			frozenCells[&v[i]] = true
			freezeInner(&v[i], seen)
		}
	case *omap:
		if v != nil {
			frozenMaps[v] = true
			for i := range v.vals {
				freezeValue(v.vals[i], seen)
				freezeValue(v.keys[i], seen)
			}
		}
	case structure:
		for i := range v {
			frozenCells[&v[i]] = true
			freezeInner(&v[i], seen)
		}
	case array:
		for i := range v {
			frozenCells[&v[i]] = true
			freezeInner(&v[i], seen)
		}
	}
}

func freezeInner(p *value, seen map[*value]bool) {
	switch x := (*p).(type) {
	case structure:
		for i := range x {
			frozenCells[&x[i]] = true
			freezeInner(&x[i], seen)
		}
	case array:
		for i := range x {
			frozenCells[&x[i]] = true
			freezeInner(&x[i], seen)
		}
	default:
		freezeValue(x, seen)
	}
}

func checkWrite(addr *value, fr *frame) {
	if frozenCells != nil && frozenCells[addr] {
		where := "?"
		if CurFrame != nil {
			where = CurFrame.fn.String()
		}
		X.Violations = append(X.Violations, Violation{Msg: fmt.Sprintf("write to caller-owned memory in %s", where), Trace: append([]bool(nil), X.trace...)})
		delete(frozenCells, addr) // report each cell once
	}
}

func init() {
	intrinsics[apiPkg+".Freeze"] = func(fr *frame, a []value) value {
		if frozenCells == nil {
			frozenCells, frozenMaps = map[*value]bool{}, map[*omap]bool{}
		}
		seen := map[*value]bool{}
		for _, x := range a[0].([]value) {
			freezeValue(x, seen)
		}
		return nil
	}
	intrinsics[apiPkg+".Thaw"] = func(fr *frame, a []value) value {
		frozenCells, frozenMaps = nil, nil
		return nil
	}
}
