package interp

import "strings"

// Write-set monitors.
//
// Freeze(roots...) marks every cell reachable from the given values as
// caller-owned; GlobalWrites(true) marks every cell reachable from the
// package-level variables of the interpreted universe. A later store into a
// marked cell (Store, MapUpdate, delete, copy, append in place) is a candidate
// violation of "caller-owned arguments are never modified" (kind "write") or
// of the non-interference condition behind concurrency safety (kind "global").
// Writes performed while a sync.Mutex/RWMutex is held, inside sync.Once.Do or
// through sync/atomic are classified as synchronised and are not flagged.

var frozenCells map[*value]string
var frozenMaps map[*omap]string
var syncDepth int

func resetMonitors() {
	frozenCells, frozenMaps, syncDepth = nil, nil, 0
	servedBodies = map[string]string{}
	resetSegments()
}

func freezeValue(v value, kind string, seen map[*value]bool) {
	switch v := v.(type) {
	case *value:
		if v == nil || seen[v] {
			return
		}
		seen[v] = true
		if _, isNative := (*v).(native); isNative {
			return // opaque library object (regexp, logger): trusted
		}
		frozenCells[v] = kind
		freezeInner(v, kind, seen)
	case iface:
		freezeValue(v.v, kind, seen)
	case []value:
		v = v[:cap(v)]
		for i := range v {
			if seen[&v[i]] {
				continue
			}
			seen[&v[i]] = true
			frozenCells[&v[i]] = kind
			freezeInner(&v[i], kind, seen)
		}
	case *omap:
		if v != nil {
			if _, ok := frozenMaps[v]; ok {
				return
			}
			frozenMaps[v] = kind
			for i := range v.vals {
				freezeValue(v.vals[i], kind, seen)
				freezeValue(v.keys[i], kind, seen)
			}
		}
	case structure:
		for i := range v {
			frozenCells[&v[i]] = kind
			freezeInner(&v[i], kind, seen)
		}
	case array:
		for i := range v {
			frozenCells[&v[i]] = kind
			freezeInner(&v[i], kind, seen)
		}
	case *closure:
		if v != nil {
			for _, b := range v.Env {
				freezeValue(b, kind, seen)
			}
		}
	}
}

func freezeInner(p *value, kind string, seen map[*value]bool) {
	switch x := (*p).(type) {
	case structure:
		for i := range x {
			frozenCells[&x[i]] = kind
			freezeInner(&x[i], kind, seen)
		}
	case array:
		for i := range x {
			frozenCells[&x[i]] = kind
			freezeInner(&x[i], kind, seen)
		}
	default:
		freezeValue(x, kind, seen)
	}
}

func frozenKind(addr *value) string { return frozenCells[addr] }
func frozenWhat(addr *value) string {
	if frozenCells[addr] == "global" {
		return "package-level state"
	}
	return "caller-owned memory"
}
func mapKind(m *omap) string { return frozenMaps[m] }
func mapWhat(m *omap) string {
	if frozenMaps[m] == "global" {
		return "package-level"
	}
	return "caller-owned"
}

// targetFunc is the innermost non-harness function (without position), the
// stable part of a write-violation's identity.
func (e *Explorer) targetFunc() string {
	w := e.targetWhere()
	if i := strings.Index(w, " ("); i >= 0 {
		return w[:i]
	}
	return w
}

func checkWrite(addr *value, fr *frame) {
	segCellWrite(addr)
	if frozenCells == nil {
		return
	}
	if kind, ok := frozenCells[addr]; ok {
		delete(frozenCells, addr) // report each cell once
		if syncDepth == 0 && !inInit {
			what := "caller-owned memory"
			if kind == "global" {
				what = "package-level state"
			}
			X.addViolation(kind, "write to "+what+" in "+X.targetFunc(), X.targetWhere())
		}
	}
}

func checkMapWrite(m *omap) {
	segMapAccess(m, true)
	if frozenMaps == nil {
		return
	}
	if kind, ok := frozenMaps[m]; ok && syncDepth == 0 && !inInit {
		what := "caller-owned"
		if kind == "global" {
			what = "package-level"
		}
		X.addViolation(kind, "write to "+what+" map in "+X.targetFunc(), X.targetWhere())
	}
}

func init() {
	ensure := func() {
		if frozenCells == nil {
			frozenCells, frozenMaps = map[*value]string{}, map[*omap]string{}
		}
	}
	intrinsics[apiPkg+".Freeze"] = func(fr *frame, a []value) value {
		ensure()
		seen := map[*value]bool{}
		for _, x := range a[0].([]value) {
			freezeValue(x, "write", seen)
		}
		return nil
	}
	intrinsics[apiPkg+".Thaw"] = func(fr *frame, a []value) value {
		for k, v := range frozenCells {
			if v == "write" {
				delete(frozenCells, k)
			}
		}
		for k, v := range frozenMaps {
			if v == "write" {
				delete(frozenMaps, k)
			}
		}
		return nil
	}
	intrinsics[apiPkg+".GlobalWrites"] = func(fr *frame, a []value) value {
		if !a[0].(bool) {
			for k, v := range frozenCells {
				if v == "global" {
					delete(frozenCells, k)
				}
			}
			for k, v := range frozenMaps {
				if v == "global" {
					delete(frozenMaps, k)
				}
			}
			return nil
		}
		ensure()
		seen := map[*value]bool{}
		for g, cell := range fr.i.globals {
			if g.Pkg != nil && strings.HasSuffix(g.Pkg.Pkg.Path(), "internal/zzverif") {
				continue
			}
			if _, already := frozenCells[cell]; already {
				continue
			}
			// caller-owned marks win over global marks
			freezeGlobal(cell, seen)
		}
		return nil
	}
	// synchronisation primitives: writes under them are not interference
	lock := func(fr *frame, a []value) value { syncDepth++; return nil }
	unlock := func(fr *frame, a []value) value {
		if syncDepth > 0 {
			syncDepth--
		}
		return nil
	}
	for _, n := range []string{"(*sync.Mutex).Lock", "(*sync.RWMutex).Lock"} {
		intrinsics[n] = lock
	}
	for _, n := range []string{"(*sync.Mutex).Unlock", "(*sync.RWMutex).Unlock"} {
		intrinsics[n] = unlock
	}
	// a read lock does not make a write exclusive: stores under RLock alone
	// are still flagged
	nop := func(fr *frame, a []value) value { return nil }
	intrinsics["(*sync.RWMutex).RLock"] = nop
	intrinsics["(*sync.RWMutex).RUnlock"] = nop
	intrinsics["(*sync.Once).Do"] = func(fr *frame, a []value) value {
		cell := a[0].(*value)
		s := (*cell).(structure)
		if done, _ := s[0].(bool); done {
			return nil
		}
		// the Once's own state is library-internal
		delete(frozenCells, &s[0])
		s[0] = true
		syncDepth++
		defer func() { syncDepth-- }()
		call(fr.i, fr, 0, a[1], nil)
		return nil
	}
}

func freezeGlobal(cell *value, seen map[*value]bool) {
	if seen[cell] {
		return
	}
	seen[cell] = true
	if _, ok := frozenCells[cell]; !ok {
		frozenCells[cell] = "global"
	}
	switch x := (*cell).(type) {
	case structure:
		for i := range x {
			freezeGlobal(&x[i], seen)
		}
	case array:
		for i := range x {
			freezeGlobal(&x[i], seen)
		}
	default:
		freezeValueKeep(x, seen)
	}
}

// freezeValueKeep is freezeValue("global") that does not overwrite existing
// (caller-owned) marks.
func freezeValueKeep(v value, seen map[*value]bool) {
	switch v := v.(type) {
	case *value:
		if v == nil || seen[v] {
			return
		}
		if _, isNative := (*v).(native); isNative {
			return
		}
		freezeGlobal(v, seen)
	case iface:
		freezeValueKeep(v.v, seen)
	case []value:
		v = v[:cap(v)]
		for i := range v {
			freezeGlobal(&v[i], seen)
		}
	case *omap:
		if v != nil {
			if _, ok := frozenMaps[v]; ok {
				return
			}
			frozenMaps[v] = "global"
			for i := range v.vals {
				freezeValueKeep(v.vals[i], seen)
				freezeValueKeep(v.keys[i], seen)
			}
		}
	case *closure:
		if v != nil {
			for _, b := range v.Env {
				freezeValueKeep(b, seen)
			}
		}
	}
}
