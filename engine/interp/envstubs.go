package interp

import (
	"unicode/utf8"
	shioridom "github.com/go-shiori/dom"
	"bytes"
	"go/types"
	"io"
	"strconv"
	"strings"

	"golang.org/x/net/html"
)

// Environment stubs: HTTP fetch, file open, readers. The bodies are supplied
// by the harness (vx.ServeHTML / vx.TempFile); nothing touches the network or
// the file system inside the engine.

var servedBodies = map[string]string{}

var bodyT types.Type = types.NewPointer(types.NewNamed(types.NewTypeName(0, nil, "zzverif.stubBody", nil), types.NewStruct(nil, nil), nil))

func readerOf(v value) io.Reader {
	switch x := v.(type) {
	case iface:
		return readerOf(x.v)
	case *value:
		if x == nil {
			return nil
		}
		if n, ok := (*x).(native); ok {
			if r, ok := n.v.(io.Reader); ok {
				return r
			}
		}
	}
	return nil
}

func init() {
	intrinsics[apiPkg+".ServeHTML"] = func(fr *frame, a []value) value {
		u := "http://127.0.0.1:9/zzpage" + strconv.Itoa(len(servedBodies))
		servedBodies[u] = conc(a[0])
		// (url, close func)
		return tuple{u, nativeFunc(func([]value) value { return nil })}
	}
	intrinsics[apiPkg+".TempFile"] = func(fr *frame, a []value) value {
		p := "/zz/tmp/file" + strconv.Itoa(len(servedBodies)) + ".html"
		servedBodies[p] = conc(a[0])
		return tuple{p, nativeFunc(func([]value) value { return nil })}
	}
	intrinsics["(*net/http.Client).Get"] = func(fr *frame, a []value) value {
		u := conc(a[1])
		body, ok := servedBodies[u]
		if !ok {
			return tuple{(*value)(nil), mkErr("Get " + u + ": connection refused (stub)")}
		}
		// build an http.Response value from the type in export data
		sig := fr.fn.Signature
		respT := sig.Results().At(0).Type().(*types.Pointer).Elem()
		cell := zero(respT)
		st := respT.Underlying().(*types.Struct)
		s := cell.(structure)
		for i := 0; i < st.NumFields(); i++ {
			switch st.Field(i).Name() {
			case "StatusCode":
				s[i] = 200
			case "Status":
				s[i] = "200 OK"
			case "Header":
				m := &omap{kt: types.Typ[types.String]}
				m.insert("Content-Type", []value{"text/html; charset=utf-8"})
				s[i] = m
			case "Body":
				rd := value(native{strings.NewReader(body)})
				s[i] = iface{t: bodyT, v: &rd}
			}
		}
		return tuple{&cell, iface{}}
	}
	intrinsics["(net/http.Header).Get"] = func(fr *frame, a []value) value {
		m, _ := a[0].(*omap)
		if m == nil {
			return ""
		}
		if v, ok := m.lookup(conc(a[1])); ok {
			if vs := v.([]value); len(vs) > 0 {
				return vs[0]
			}
		}
		return ""
	}
	intrinsics["os.Open"] = func(fr *frame, a []value) value {
		body, ok := servedBodies[conc(a[0])]
		if !ok {
			return tuple{(*value)(nil), mkErr("open " + conc(a[0]) + ": no such file or directory")}
		}
		rd := value(native{strings.NewReader(body)})
		return tuple{&rd, iface{}}
	}
	intrinsics["(*os.File).Close"] = func(fr *frame, a []value) value { return iface{} }
	intrinsics["bytes.NewReader"] = func(fr *frame, a []value) value {
		bs := a[0].([]value)
		b := make([]byte, len(bs))
		for i, x := range bs {
			b[i] = byte(asInt64(x))
		}
		v := value(native{bytes.NewReader(b)})
		return &v
	}
	// io.ReadAll / ioutil.ReadAll on a modelled (native, concrete) reader
	readAll := func(fr *frame, a []value) value {
		r := readerOf(a[0])
		if r == nil {
			panic(unsupported{"io.ReadAll of an unmodelled reader"})
		}
		b, err := io.ReadAll(r)
		out := make([]value, len(b))
		for i, c := range b {
			out[i] = c
		}
		if err != nil {
			return tuple{out, mkErr(err.Error())}
		}
		return tuple{out, iface{}}
	}
	intrinsics["io.ReadAll"] = readAll
	intrinsics["io/ioutil.ReadAll"] = readAll
	intrinsics["unicode/utf8.Valid"] = func(fr *frame, a []value) value {
		bs := a[0].([]value)
		b := make([]byte, len(bs))
		for i, x := range bs {
			if _, sym := x.(*Sym); sym {
				panic(unsupported{"utf8.Valid of symbolic bytes"})
			}
			b[i] = byte(asInt64(x))
		}
		return utf8.Valid(b)
	}
	intrinsics["bytes.NewBufferString"] = func(fr *frame, a []value) value {
		v := value(native{strings.NewReader(conc(a[0]))})
		return &v
	}
	// dom.Parse = charset detection + transcoding + NFC normalisation +
	// html.Parse. The input is concrete here, so the REAL function is run
	// natively (same module version as /repo's go.mod) and its tree is modelled.
	intrinsics["github.com/go-shiori/dom.Parse"] = func(fr *frame, a []value) value {
		r := readerOf(a[0])
		if r == nil {
			panic(unsupported{"dom.Parse of an unmodelled reader"})
		}
		doc, err := shioridom.Parse(r)
		if err != nil {
			return tuple{(*value)(nil), mkErr(err.Error())}
		}
		return tuple{newNodeMap().model(doc), iface{}}
	}
	intrinsics["github.com/go-shiori/dom.FastParse"] = func(fr *frame, a []value) value {
		r := readerOf(a[0])
		if r == nil {
			panic(unsupported{"dom.FastParse of an unmodelled reader"})
		}
		doc, err := html.Parse(r)
		if err != nil {
			return tuple{(*value)(nil), mkErr(err.Error())}
		}
		return tuple{newNodeMap().model(doc), iface{}}
	}
}

// bodyMethod serves Close/Read on the stub response body.
func bodyMethod(t types.Type, name string) nativeFunc {
	if t != bodyT {
		return nil
	}
	switch name {
	case "Close":
		return func(a []value) value { return iface{} }
	}
	return nil
}
