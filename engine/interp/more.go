package interp

import (
	"golang.org/x/tools/go/ssa"
	"go/types"
	"fmt"
	"math"
	"reflect"
	"regexp"
	"sort"
	"strconv"
	"strings"
)

func init() {
	intrinsics["github.com/sirupsen/logrus.New"] = func(fr *frame, a []value) value {
		v := value(native{"logger"})
		return &v
	}
	intrinsics["(*github.com/sirupsen/logrus.Logger).Println"] = func(fr *frame, a []value) value { return nil }
	intrinsics["(time.Time).Sub"] = func(fr *frame, a []value) value { return int64(0) }
	rx := func(a value) *regexp.Regexp { return (*a.(*value)).(native).v.(*regexp.Regexp) }
	intrinsics["(*regexp.Regexp).FindAllStringSubmatch"] = func(fr *frame, a []value) value {
		return fromNative(reflect.ValueOf(rx(a[0]).FindAllStringSubmatch(conc(a[1]), int(asInt64(a[2])))))
	}
	intrinsics["(*regexp.Regexp).FindAllStringIndex"] = func(fr *frame, a []value) value {
		return fromNative(reflect.ValueOf(rx(a[0]).FindAllStringIndex(conc(a[1]), int(asInt64(a[2])))))
	}
	intrinsics["(*regexp.Regexp).FindString"] = func(fr *frame, a []value) value { return rx(a[0]).FindString(conc(a[1])) }
	intrinsics["(*regexp.Regexp).Split"] = func(fr *frame, a []value) value {
		return fromNative(reflect.ValueOf(rx(a[0]).Split(conc(a[1]), int(asInt64(a[2])))))
	}
	intrinsics["(*regexp.Regexp).ReplaceAllStringFunc"] = func(fr *frame, a []value) value {
		return rx(a[0]).ReplaceAllStringFunc(conc(a[1]), func(s string) string {
			return conc(call(fr.i, fr, 0, a[2], []value{s}))
		})
	}
	intrinsics["strconv.Atoi"] = func(fr *frame, a []value) value {
		n, err := strconv.Atoi(conc(a[0]))
		if err != nil {
			return tuple{0, mkErr(err.Error())}
		}
		return tuple{n, iface{}}
	}
	intrinsics["fmt.Sprintf"] = func(fr *frame, a []value) value {
		args := a[1].([]value)
		out := make([]interface{}, len(args))
		for i, x := range args {
			v := x.(iface).v
			switch v.(type) {
			case string, int, bool, int64, uint, float64:
				out[i] = v
			default:
				out[i] = toString(v)
			}
		}
		return fmt.Sprintf(conc(a[0]), out...)
	}
	intrinsics["slices.Sort[[]string string]"] = func(fr *frame, a []value) value { return intrinsics["sort.Strings"](fr, a) }
	intrinsics["math.Ceil"] = func(fr *frame, a []value) value { return math.Ceil(a[0].(float64)) }
	intrinsics["sort.Strings"] = func(fr *frame, a []value) value {
		xs := a[0].([]value)
		ss := make([]string, len(xs))
		for i := range xs {
			ss[i] = conc(xs[i])
		}
		sort.Strings(ss)
		for i := range xs {
			xs[i] = ss[i]
		}
		return nil
	}
	for name, f := range map[string]interface{}{
		"strings.Trim": strings.Trim, "strings.TrimPrefix": strings.TrimPrefix, "strings.ToUpper": strings.ToUpper,
		"strings.EqualFold": strings.EqualFold, "strings.TrimLeft": strings.TrimLeft, "strings.TrimRight": strings.TrimRight,
		"strings.ContainsAny": strings.ContainsAny, "strings.IndexAny": strings.IndexAny, "strings.Repeat": strings.Repeat,
		"strconv.Itoa": strconv.Itoa, "strings.LastIndexByte": func(s string, c uint8) int { return strings.LastIndexByte(s, c) }, "strings.IndexRune": strings.IndexRune, "strings.ContainsRune": strings.ContainsRune, "strings.Count": strings.Count,  "strconv.Quote": strconv.Quote,
	} {
		fv := reflect.ValueOf(f)
		if intrinsics[name] != nil {
			continue
		}
		intrinsics[name] = func(fr *frame, a []value) value {
			in := make([]reflect.Value, len(a))
			for i, x := range a {
				in[i] = toNative(x, fv.Type().In(i))
			}
			return fromNative(fv.Call(in)[0])
		}
	}
}

// Synthetic stand-ins for *errors.errorString and runtime.errorString (the
// real types are unexported and not part of export data). Their only method,
// Error, is served by prepareCall.
var errT types.Type = types.NewPointer(types.NewNamed(types.NewTypeName(0, nil, "errors.errorString", nil),
	types.NewStruct([]*types.Var{types.NewVar(0, nil, "s", types.Typ[types.String])}, nil), nil))
var rtErrT types.Type = types.NewNamed(types.NewTypeName(0, nil, "runtime.errorString", nil), types.Typ[types.String], nil)

// nativeFunc is a callable implemented by the engine.
type nativeFunc func(args []value) value

func errorMethod(t types.Type) nativeFunc {
	switch t {
	case errT:
		return func(a []value) value { return (*a[0].(*value)).(structure)[0] }
	case rtErrT:
		return func(a []value) value { return a[0] }
	}
	return nil
}

func mkErr(msg string) value {
	v := value(structure{msg})
	return iface{t: errT, v: &v}
}

func init() {
	// path.Join/Dir are interpreted from source when symbolic (package path is in the universe)
	intrinsics["errors.New"] = func(fr *frame, a []value) value { return mkErr(conc(a[0])) }
	intrinsics["(*errors.errorString).Error"] = func(fr *frame, a []value) value { return (*a[0].(*value)).(structure)[0] }
	intrinsics["fmt.Errorf"] = func(fr *frame, a []value) value { return mkErr(conc(a[0])) }
}

func init() {
	get := func(p value) value {
		s := (*p.(*value)).(structure)
		if isStr(s[1]) {
			return s[1]
		}
		return ""
	}
	set := func(p value, v value) { (*p.(*value)).(structure)[1] = v }
	app := func(x, y value) value { return mkStr(append(append([]value(nil), bytesOf(x)...), bytesOf(y)...)) }
	intrinsics["(*strings.Builder).WriteString"] = func(fr *frame, a []value) value {
		set(a[0], app(get(a[0]), a[1]))
		return tuple{0, iface{}}
	}
	intrinsics["(*strings.Builder).WriteByte"] = func(fr *frame, a []value) value {
		set(a[0], mkStr(append(append([]value(nil), bytesOf(get(a[0]))...), a[1])))
		return iface{}
	}
	intrinsics["(*strings.Builder).String"] = func(fr *frame, a []value) value { return get(a[0]) }
	intrinsics["(*strings.Builder).Len"] = func(fr *frame, a []value) value { return len(bytesOf(get(a[0]))) }
	intrinsics["(*strings.Builder).Grow"] = func(fr *frame, a []value) value { return nil }
	intrinsics["(*strings.Builder).Reset"] = func(fr *frame, a []value) value { set(a[0], ""); return nil }
}

func init() {
	// fmt.Sprintf with symbolic arguments only ever feeds debug strings in the
	// code under test: return an opaque marker (logging is not the subject).
	natSprintf := intrinsics["fmt.Sprintf"]
	intrinsics["fmt.Sprintf"] = func(fr *frame, a []value) value {
		for _, x := range a[1].([]value) {
			v := x.(iface).v
			if isSym(v) || isSymStr(v) {
				return "<fmt:symbolic>"
			}
		}
		return natSprintf(fr, a)
	}
	strIntrinsic("(*regexp.Regexp).FindString", func(a []value) value {
		re := (*a[0].(*value)).(native).v.(*regexp.Regexp)
		r := symFindSubmatch(re, bytesOf(a[1])).([]value)
		if len(r) == 0 {
			return ""
		}
		return r[0]
	})
	strIntrinsic("strconv.Atoi", func(a []value) value {
		bs := bytesOf(a[0])
		if len(bs) == 0 || len(bs) > 15 {
			return tuple{0, mkErr("strconv.Atoi: parsing: invalid syntax")}
		}
		digits := bs
		neg := false
		if len(bs) > 1 {
			if decideT(inRange(bs[0], '-', '-')) {
				neg, digits = true, bs[1:]
			} else if decideT(inRange(bs[0], '+', '+')) {
				digits = bs[1:]
			}
		}
		conds := make([]string, len(digits))
		for i, d := range digits {
			conds[i] = inRange(d, '0', '9')
		}
		if !decideT(and(conds...)) {
			return tuple{0, mkErr("strconv.Atoi: parsing: invalid syntax")}
		}
		terms := []string{}
		w := int64(1)
		for i := len(digits) - 1; i >= 0; i-- {
			terms = append(terms, fmt.Sprintf("(* %d (- %s 48))", w, term(digits[i])))
			w *= 10
		}
		t := "(+ 0 " + strings.Join(terms, " ") + ")"
		if neg {
			t = "(- " + t + ")"
		}
		r := sint(t)
		r.Lo, r.Hi, r.Bounded = -(w - 1), w-1, true
		return tuple{r, iface{}}
	})
}

func init() {
	intrinsics["internal/bytealg.LastIndexByteString"] = func(fr *frame, a []value) value {
		return intrinsics["strings.LastIndexByte"](fr, a)
	}
	intrinsics["internal/bytealg.IndexByteString"] = func(fr *frame, a []value) value {
		return intrinsics["strings.IndexByte"](fr, a)
	}
	intrinsics["internal/bytealg.CountString"] = func(fr *frame, a []value) value {
		return intrinsics["strings.Count"](fr, []value{a[0], mkStr([]value{a[1]})})
	}
}

func init() {
	// sort.Slice / sort.SliceStable: stable insertion sort with in-place swaps
	// (the less function reads the slice by index); a symbolic comparison
	// result is a decision.
	sortSlice := func(fr *frame, a []value) value {
		xs, ok := a[0].(iface).v.([]value)
		if !ok {
			panic(unsupported{"sort.Slice of a non-slice value"})
		}
		less := a[1]
		for i := 1; i < len(xs); i++ {
			for j := i; j > 0; j-- {
				r := call(fr.i, fr, 0, less, []value{j, j - 1})
				lt := false
				switch b := r.(type) {
				case bool:
					lt = b
				case *Sym:
					lt = X.decide(b)
				}
				if !lt {
					break
				}
				checkWrite(&xs[j], fr)
				checkWrite(&xs[j-1], fr)
				xs[j], xs[j-1] = xs[j-1], xs[j]
			}
		}
		return nil
	}
	// sort.Slice is NOT stable: the order of equal elements is whatever the
	// standard library's pdqsort produces. sort.Sort on an adapter runs the
	// same generated algorithm (zsortfunc.go / zsortinterface.go come from one
	// template), so the comparisons and swaps are exactly sort.Slice's.
	intrinsics["sort.Slice"] = func(fr *frame, a []value) value {
		xs, ok := a[0].(iface).v.([]value)
		if !ok {
			panic(unsupported{"sort.Slice of a non-slice value"})
		}
		sort.Sort(&sliceAdapter{fr: fr, xs: xs, less: a[1]})
		return nil
	}
	intrinsics["sort.SliceStable"] = sortSlice
	intrinsics["sort.Ints"] = func(fr *frame, a []value) value {
		xs := a[0].([]value)
		for i := 1; i < len(xs); i++ {
			for j := i; j > 0; j-- {
				if !decideT(term2lt(xs[j], xs[j-1])) {
					break
				}
				checkWrite(&xs[j], fr)
				checkWrite(&xs[j-1], fr)
				xs[j], xs[j-1] = xs[j-1], xs[j]
			}
		}
		return nil
	}
}

func term2lt(a, b value) string {
	if !isSym(a) && !isSym(b) {
		if asInt64(a) < asInt64(b) {
			return "true"
		}
		return "false"
	}
	return "(< " + term(a) + " " + term(b) + ")"
}

// externGlobal serves the few package-level variables of non-interpreted
// packages that code may reasonably refer to (sentinel errors).
func externGlobal(i *interpreter, g *ssa.Global) *value {
	name := g.String()
	switch name {
	case "strconv.ErrSyntax", "strconv.ErrRange", "io.EOF", "io.ErrUnexpectedEOF":
		if c, ok := i.globals[g]; ok {
			return c
		}
		v := mkErr(name)
		i.globals[g] = &v
		return &v
	}
	return nil
}

// stringify renders a value the way fmt's %v/%s would for the cases that
// matter: it CALLS the String/Error method of the dynamic type (methods may
// have side effects in the code under test).
func stringify(fr *frame, x value) interface{} {
	it, ok := x.(iface)
	if !ok {
		return toString(x)
	}
	if it.t == nil {
		return "<nil>"
	}
	if nf := errorMethod(it.t); nf != nil {
		return conc(nf([]value{it.v}))
	}
	for _, meth := range []string{"Error", "String"} {
		if types.NewMethodSet(it.t).Lookup(nil, meth) == nil {
			continue
		}
		if f := fr.i.prog.LookupMethod(it.t, nil, meth); f != nil && f.Signature.Params().Len() == 0 && f.Signature.Results().Len() == 1 &&
			(intrinsics[f.String()] != nil || (f.Blocks != nil && fr.i.interpreted(f))) {
			r := call(fr.i, fr, 0, f, []value{it.v})
			if s, ok := r.(string); ok {
				return s
			}
			return "<fmt:symbolic>"
		}
	}
	switch v := it.v.(type) {
	case string, int, bool, int64, uint, float64, int32, uint8:
		return v
	case *Sym, *SymStr:
		return "<fmt:symbolic>"
	}
	return toString(it.v)
}

func init() {
	sprint := func(sep string, nl bool) intrinsic {
		return func(fr *frame, a []value) value {
			var sb strings.Builder
			isStrArg := func(x value) bool {
				it, ok := x.(iface)
				if !ok {
					return false
				}
				_, s1 := it.v.(string)
				_, s2 := it.v.(*SymStr)
				return s1 || s2
			}
			args := a[0].([]value)
			for i, x := range args {
				if i > 0 {
					if nl {
						sb.WriteString(sep)
					} else if !isStrArg(x) && !isStrArg(args[i-1]) {
						sb.WriteString(" ") // fmt.Sprint: space between operands when neither is a string
					}
				}
				sb.WriteString(fmt.Sprint(stringify(fr, x)))
			}
			if nl {
				sb.WriteString("\n")
			}
			return sb.String()
		}
	}
	intrinsics["fmt.Sprint"] = sprint("", false)
	intrinsics["fmt.Sprintln"] = sprint(" ", true)
	intrinsics["fmt.Sprintf"] = func(fr *frame, a []value) value {
		args := a[1].([]value)
		out := make([]interface{}, len(args))
		for i, x := range args {
			out[i] = stringify(fr, x)
		}
		return fmt.Sprintf(conc(a[0]), out...)
	}
	// fmt.Fprintf / Fprint / Fprintln: format as above, then WriteString on the
	// dynamic writer (bytes.Buffer, strings.Builder or an interpreted type)
	fwrite := func(fr *frame, w value, s value) value {
		it, ok := w.(iface)
		if !ok || it.t == nil {
			panic(unsupported{"fmt.Fprint* to a nil or unmodelled writer"})
		}
		if types.NewMethodSet(it.t).Lookup(nil, "WriteString") != nil {
			if f := fr.i.prog.LookupMethod(it.t, nil, "WriteString"); f != nil {
				if in := intrinsics[f.String()]; in != nil {
					in(fr, []value{it.v, s})
					return tuple{len(bytesOf(s)), iface{}}
				}
				if f.Blocks != nil && fr.i.interpreted(f) {
					call(fr.i, fr, 0, f, []value{it.v, s})
					return tuple{len(bytesOf(s)), iface{}}
				}
			}
		}
		panic(unsupported{"fmt.Fprint* to a writer without a modelled WriteString: " + it.t.String()})
	}
	intrinsics["fmt.Fprintf"] = func(fr *frame, a []value) value {
		return fwrite(fr, a[0], intrinsics["fmt.Sprintf"](fr, a[1:]))
	}
	intrinsics["fmt.Fprint"] = func(fr *frame, a []value) value {
		return fwrite(fr, a[0], intrinsics["fmt.Sprint"](fr, a[1:]))
	}
	intrinsics["fmt.Fprintln"] = func(fr *frame, a []value) value {
		return fwrite(fr, a[0], intrinsics["fmt.Sprintln"](fr, a[1:]))
	}
	// logging is an empty sink, but the arguments are rendered (String methods run)
	logSink := func(fr *frame, a []value) value {
		if len(a) > 1 {
			if args, ok := a[len(a)-1].([]value); ok {
				for _, x := range args {
					stringify(fr, x)
				}
			}
		}
		return nil
	}
	for _, n := range []string{"Println", "Print", "Info", "Infoln", "Debug", "Debugln", "Warn", "Warnln"} {
		intrinsics["(*github.com/sirupsen/logrus.Logger)."+n] = logSink
	}
}

type sliceAdapter struct {
	fr   *frame
	xs   []value
	less value
}

func (s *sliceAdapter) Len() int { return len(s.xs) }
func (s *sliceAdapter) Less(i, j int) bool {
	r := call(s.fr.i, s.fr, 0, s.less, []value{i, j})
	switch b := r.(type) {
	case bool:
		return b
	case *Sym:
		return X.decide(b)
	}
	return false
}
func (s *sliceAdapter) Swap(i, j int) {
	checkWrite(&s.xs[i], s.fr)
	checkWrite(&s.xs[j], s.fr)
	s.xs[i], s.xs[j] = s.xs[j], s.xs[i]
}
