package interp

// Node surgery of golang.org/x/net/html (v0.10.0 node.go) on the model
// representation of *html.Node, transcribed statement by statement. The html
// package itself is not loaded from source: type-checking its entity and atom
// tables costs ~5 CPU-seconds per engine process and only these three methods
// are ever called by the code under test (Parse/Render cross the native
// bridge). Validated against the real methods by the bridge self-test.
//
// slots: 0 Parent,1 FirstChild,2 LastChild,3 PrevSibling,4 NextSibling,5 Type,6 DataAtom,7 Data,8 Namespace,9 Attr

func nodeS(p *value) structure {
	if p == nil {
		panic("runtime error: invalid memory address or nil pointer dereference")
	}
	return (*p).(structure)
}

func np(v value) *value {
	if v == nil {
		return nil
	}
	return v.(*value)
}

func setSlot(s structure, i int, v *value) {
	checkWrite(&s[i], nil)
	s[i] = v
}

func init() {
	const H = "(*golang.org/x/net/html.Node)."
	intrinsics[H+"InsertBefore"] = func(fr *frame, a []value) value {
		n, newChild, oldChild := np(a[0]), np(a[1]), np(a[2])
		nc := nodeS(newChild)
		if np(nc[0]) != nil || np(nc[3]) != nil || np(nc[4]) != nil {
			panic(targetPanic{"html: InsertBefore called for an attached child Node"})
		}
		var prev, next *value
		ns := nodeS(n)
		if oldChild != nil {
			prev, next = np(nodeS(oldChild)[3]), oldChild
		} else {
			prev = np(ns[2])
		}
		if prev != nil {
			setSlot(nodeS(prev), 4, newChild)
		} else {
			setSlot(ns, 1, newChild)
		}
		if next != nil {
			setSlot(nodeS(next), 3, newChild)
		} else {
			setSlot(ns, 2, newChild)
		}
		setSlot(nc, 0, n)
		setSlot(nc, 3, prev)
		setSlot(nc, 4, next)
		return nil
	}
	intrinsics[H+"AppendChild"] = func(fr *frame, a []value) value {
		n, c := np(a[0]), np(a[1])
		cs := nodeS(c)
		if np(cs[0]) != nil || np(cs[3]) != nil || np(cs[4]) != nil {
			panic(targetPanic{"html: AppendChild called for an attached child Node"})
		}
		ns := nodeS(n)
		last := np(ns[2])
		if last != nil {
			setSlot(nodeS(last), 4, c)
		} else {
			setSlot(ns, 1, c)
		}
		setSlot(ns, 2, c)
		setSlot(cs, 0, n)
		setSlot(cs, 3, last)
		return nil
	}
	intrinsics[H+"RemoveChild"] = func(fr *frame, a []value) value {
		n, c := np(a[0]), np(a[1])
		cs := nodeS(c)
		if np(cs[0]) != n {
			panic(targetPanic{"html: RemoveChild called for a non-child Node"})
		}
		ns := nodeS(n)
		if np(ns[1]) == c {
			setSlot(ns, 1, np(cs[4]))
		}
		if nx := np(cs[4]); nx != nil {
			setSlot(nodeS(nx), 3, np(cs[3]))
		}
		if np(ns[2]) == c {
			setSlot(ns, 2, np(cs[3]))
		}
		if pv := np(cs[3]); pv != nil {
			setSlot(nodeS(pv), 4, np(cs[4]))
		}
		setSlot(cs, 0, nil)
		setSlot(cs, 3, nil)
		setSlot(cs, 4, nil)
		return nil
	}
}
