package interp

import "go/types"

func mustDeref(t types.Type) types.Type {
	if p, ok := t.Underlying().(*types.Pointer); ok {
		return p.Elem()
	}
	panic("mustDeref: not a pointer: " + t.String())
}
