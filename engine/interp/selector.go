package interp

import "strings"

// A selector matcher over model nodes for the selector subset the code under
// test uses: comma lists of compound selectors joined by descendant (' ') or
// child ('>') combinators; a compound is tag|* followed by any number of
// .class, #id, [attr], [attr=v], [attr="v"], [attr^=v], [attr$=v], [attr*=v],
// [attr~=v]. Attribute VALUES may be symbolic: a value test is then a decision
// (fork), so trees carrying symbolic attribute values need not cross the
// native bridge. Anything else falls back to cascadia on a concrete tree.
// Validated against cascadia by the bridge self-test (bin/selftest).

type attrTest struct {
	key string
	op  byte // 0 exists, '=', '^', '$', '*', '~'
	val string
}

type compound struct {
	tag   string // "" = any
	attrs []attrTest
	comb  byte // combinator to the PREVIOUS compound: 0 (first), ' ' or '>'
}

type complexSel []compound

func parseSelectors(sel string) ([]complexSel, bool) {
	var out []complexSel
	for _, part := range splitTop(sel, ',') {
		part = strings.TrimSpace(part)
		if part == "" {
			return nil, false
		}
		cs, ok := parseComplex(part)
		if !ok {
			return nil, false
		}
		out = append(out, cs)
	}
	return out, len(out) > 0
}

func splitTop(s string, sep byte) []string {
	var out []string
	depth, last := 0, 0
	inq := byte(0)
	for i := 0; i < len(s); i++ {
		c := s[i]
		switch {
		case inq != 0:
			if c == inq {
				inq = 0
			}
		case c == '"' || c == '\'':
			inq = c
		case c == '[':
			depth++
		case c == ']':
			depth--
		case c == sep && depth == 0:
			out = append(out, s[last:i])
			last = i + 1
		}
	}
	return append(out, s[last:])
}

func isIdent(c byte) bool {
	return c == '-' || c == '_' || c >= '0' && c <= '9' || c >= 'a' && c <= 'z' || c >= 'A' && c <= 'Z'
}

func parseComplex(s string) (complexSel, bool) {
	var cs complexSel
	i := 0
	comb := byte(0)
	for i < len(s) {
		// combinator
		sawSpace := false
		for i < len(s) && (s[i] == ' ' || s[i] == '\t') {
			sawSpace = true
			i++
		}
		if i < len(s) && s[i] == '>' {
			comb = '>'
			i++
			for i < len(s) && s[i] == ' ' {
				i++
			}
		} else if sawSpace && len(cs) > 0 {
			comb = ' '
		}
		if i >= len(s) {
			break
		}
		c := compound{comb: comb}
		if len(cs) == 0 {
			c.comb = 0
		}
		start := i
		if s[i] == '*' {
			i++
		} else {
			for i < len(s) && isIdent(s[i]) {
				i++
			}
			c.tag = strings.ToLower(s[start:i])
		}
		for i < len(s) && (s[i] == '.' || s[i] == '#' || s[i] == '[') {
			switch s[i] {
			case '.', '#':
				k := s[i]
				i++
				st := i
				for i < len(s) && isIdent(s[i]) {
					i++
				}
				if st == i {
					return nil, false
				}
				if k == '.' {
					c.attrs = append(c.attrs, attrTest{"class", '~', s[st:i]})
				} else {
					c.attrs = append(c.attrs, attrTest{"id", '=', s[st:i]})
				}
			case '[':
				j := strings.IndexByte(s[i:], ']')
				if j < 0 {
					return nil, false
				}
				body := s[i+1 : i+j]
				i += j + 1
				at := attrTest{}
				k := 0
				for k < len(body) && isIdent(body[k]) {
					k++
				}
				at.key = strings.ToLower(body[:k])
				if at.key == "" {
					return nil, false
				}
				rest := body[k:]
				if rest != "" {
					switch {
					case rest[0] == '=':
						at.op, rest = '=', rest[1:]
					case len(rest) > 1 && rest[1] == '=' && strings.IndexByte("^$*~", rest[0]) >= 0:
						at.op, rest = rest[0], rest[2:]
					default:
						return nil, false
					}
					if len(rest) >= 2 && (rest[0] == '"' || rest[0] == '\'') && rest[len(rest)-1] == rest[0] {
						rest = rest[1 : len(rest)-1]
					}
					if strings.ContainsAny(rest, "\"'\\") {
						return nil, false
					}
					at.val = rest
				}
				c.attrs = append(c.attrs, at)
			}
		}
		if i == start {
			return nil, false
		}
		if i < len(s) && s[i] != ' ' && s[i] != '>' && s[i] != '\t' {
			return nil, false // pseudo-classes, sibling combinators, ...
		}
		cs = append(cs, c)
		comb = 0
	}
	return cs, len(cs) > 0
}

func attrMatches(at attrTest, v value) bool {
	if at.op == 0 {
		return true
	}
	bs := bytesOf(v)
	want := bytesOf(at.val)
	switch at.op {
	case '=':
		return decideT(strEq(v, at.val))
	case '^':
		return len(want) > 0 && decideT(eqAt(bs, 0, want))
	case '$':
		return len(want) > 0 && decideT(eqAt(bs, len(bs)-len(want), want))
	case '*':
		if len(want) == 0 {
			return false
		}
		var alts []string
		for off := 0; off+len(want) <= len(bs); off++ {
			alts = append(alts, eqAt(bs, off, want))
		}
		return decideT(or(alts...))
	case '~':
		if len(want) == 0 {
			return false
		}
		// whitespace-separated token equal to want
		var alts []string
		for off := 0; off+len(want) <= len(bs); off++ {
			c := eqAt(bs, off, want)
			if off > 0 {
				c = and(c, isSpaceT(bs[off-1]))
			}
			if off+len(want) < len(bs) {
				c = and(c, isSpaceT(bs[off+len(want)]))
			}
			alts = append(alts, c)
		}
		return decideT(or(alts...))
	}
	return false
}

func compoundMatches(n structure, c compound) bool {
	if asInt64(n[5]) != 3 { // html.ElementNode
		return false
	}
	if c.tag != "" {
		d, ok := n[7].(string)
		if !ok {
			panic(unsupported{"symbolic tag name in selector matching"})
		}
		if d != c.tag {
			return false
		}
	}
	for _, at := range c.attrs {
		found := false
		for _, a := range n[9].([]value) {
			as := a.(structure)
			if !decideT(strEq(as[1], at.key)) {
				continue
			}
			// cascadia: any attribute of that name whose value passes
			if attrMatches(at, as[2]) {
				found = true
				break
			}
		}
		if !found {
			return false
		}
	}
	return true
}

func parentOf(p *value) *value { return np((*p).(structure)[0]) }

// selMatchAt: does the complex selector cs (up to index k) match node p?
func selMatchAt(p *value, cs complexSel, k int, scope *value) bool {
	if !compoundMatches((*p).(structure), cs[k]) {
		return false
	}
	if k == 0 {
		return true
	}
	switch cs[k].comb {
	case '>':
		par := parentOf(p)
		return par != nil && selMatchAt(par, cs, k-1, scope)
	default:
		for a := parentOf(p); a != nil; a = parentOf(a) {
			if selMatchAt(a, cs, k-1, scope) {
				return true
			}
		}
	}
	return false
}

func selQueryAll(root *value, sels []complexSel, first bool) []value {
	var out []value
	var walk func(p *value) bool
	walk = func(p *value) bool {
		for c := np((*p).(structure)[1]); c != nil; c = np((*c).(structure)[4]) {
			for _, cs := range sels {
				if selMatchAt(c, cs, len(cs)-1, root) {
					out = append(out, c)
					break
				}
			}
			if first && len(out) > 0 {
				return true
			}
			if walk(c) {
				return true
			}
		}
		return false
	}
	walk(root)
	return out
}

func init() {
	const dom = "github.com/go-shiori/dom"
	natQ, natQA := intrinsics[dom+".QuerySelector"], intrinsics[dom+".QuerySelectorAll"]
	intrinsics[dom+".QuerySelector"] = func(fr *frame, a []value) value {
		if np(a[0]) == nil {
			panic("runtime error: invalid memory address or nil pointer dereference")
		}
		if sels, ok := parseSelectors(conc(a[1])); ok {
			r := selQueryAll(a[0].(*value), sels, true)
			if len(r) == 0 {
				return (*value)(nil)
			}
			return r[0]
		}
		return natQ(fr, a)
	}
	intrinsics[dom+".QuerySelectorAll"] = func(fr *frame, a []value) value {
		if np(a[0]) == nil {
			panic("runtime error: invalid memory address or nil pointer dereference")
		}
		if sels, ok := parseSelectors(conc(a[1])); ok {
			return selQueryAll(a[0].(*value), sels, false)
		}
		return natQA(fr, a)
	}
}
