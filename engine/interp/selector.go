package interp

import "strings"

// A tiny selector matcher over model nodes for the forms whose outcome does not
// depend on attribute *values* (tag, *, [attr], tag[attr], comma lists), so that
// trees carrying symbolic attribute values need not cross the native bridge.

type simpleSel struct{ tag, attr string }

func parseSimpleSelectors(sel string) ([]simpleSel, bool) {
	var out []simpleSel
	for _, part := range strings.Split(sel, ",") {
		part = strings.TrimSpace(part)
		if part == "" || strings.ContainsAny(part, " >+~.#:=^$\"") {
			return nil, false
		}
		s := simpleSel{tag: part}
		if i := strings.Index(part, "["); i >= 0 {
			if !strings.HasSuffix(part, "]") {
				return nil, false
			}
			s.tag, s.attr = part[:i], part[i+1:len(part)-1]
		}
		if s.tag == "*" {
			s.tag = ""
		}
		out = append(out, s)
	}
	return out, true
}

func selMatches(n structure, sels []simpleSel) bool {
	if asInt64(n[5]) != 3 { // html.ElementNode
		return false
	}
	for _, s := range sels {
		if s.tag != "" && n[7] != value(s.tag) {
			continue
		}
		if s.attr != "" {
			found := false
			for _, a := range n[9].([]value) {
				if a.(structure)[1] == value(s.attr) {
					found = true
				}
			}
			if !found {
				continue
			}
		}
		return true
	}
	return false
}

func selQueryAll(root *value, sels []simpleSel, first bool) []value {
	var out []value
	var walk func(p *value) bool
	walk = func(p *value) bool {
		for c := (*p).(structure)[1].(*value); c != nil; c = (*c).(structure)[4].(*value) {
			if selMatches((*c).(structure), sels) {
				out = append(out, c)
				if first {
					return true
				}
			}
			if walk(c) {
				return true
			}
		}
		return false
	}
	walk(root)
	return out
}

func init() {
	const dom = "github.com/go-shiori/dom"
	natQ, natQA := intrinsics[dom+".QuerySelector"], intrinsics[dom+".QuerySelectorAll"]
	intrinsics[dom+".QuerySelector"] = func(fr *frame, a []value) value {
		if sels, ok := parseSimpleSelectors(conc(a[1])); ok {
			r := selQueryAll(a[0].(*value), sels, true)
			if len(r) == 0 {
				return (*value)(nil)
			}
			return r[0]
		}
		return natQ(fr, a)
	}
	intrinsics[dom+".QuerySelectorAll"] = func(fr *frame, a []value) value {
		if sels, ok := parseSimpleSelectors(conc(a[1])); ok {
			return selQueryAll(a[0].(*value), sels, false)
		}
		return natQA(fr, a)
	}
}
