package interp

import (
	"bytes"
	"fmt"
	"reflect"
	"regexp"
	"strings"

	"github.com/andybalholm/cascadia"
	"golang.org/x/net/html"
	"golang.org/x/net/html/atom"
)

// ---- html.Node marshalling between the interpreter's model and real nodes.
// Field order of html.Node: Parent, FirstChild, LastChild, PrevSibling,
// NextSibling, Type, DataAtom, Data, Namespace, Attr.

func conc(v value) string {
	s, ok := v.(string)
	if !ok {
		panic(unsupported{"symbolic string crosses the native bridge in " + curIntrinsic})
	}
	return s
}

var curIntrinsic string

type nodeMap struct {
	toReal  map[*value]*html.Node
	toModel map[*html.Node]*value
}

func newNodeMap() *nodeMap {
	return &nodeMap{map[*value]*html.Node{}, map[*html.Node]*value{}}
}

func (m *nodeMap) real(p *value) *html.Node {
	if p == nil {
		return nil
	}
	if r, ok := m.toReal[p]; ok {
		return r
	}
	s := (*p).(structure)
	n := &html.Node{
		Type:      html.NodeType(asInt64(s[5])),
		DataAtom:  atom.Atom(asInt64(s[6])),
		Data:      conc(s[7]),
		Namespace: conc(s[8]),
	}
	for _, a := range s[9].([]value) {
		as := a.(structure)
		n.Attr = append(n.Attr, html.Attribute{Namespace: conc(as[0]), Key: conc(as[1]), Val: conc(as[2])})
	}
	m.toReal[p] = n
	m.toModel[n] = p
	for c := s[1].(*value); c != nil; c = (*c).(structure)[4].(*value) {
		n.AppendChild(m.real(c))
	}
	return n
}

func (m *nodeMap) model(n *html.Node) *value {
	if n == nil {
		return nil
	}
	if p, ok := m.toModel[n]; ok {
		return p
	}
	attrs := []value(nil)
	for _, a := range n.Attr {
		attrs = append(attrs, structure{a.Namespace, a.Key, a.Val})
	}
	s := structure{(*value)(nil), (*value)(nil), (*value)(nil), (*value)(nil), (*value)(nil),
		uint32(n.Type), uint32(n.DataAtom), n.Data, n.Namespace, attrs}
	var v value = s
	p := &v
	m.toModel[n] = p
	m.toReal[p] = n
	var prev *value
	for c := n.FirstChild; c != nil; c = c.NextSibling {
		cp := m.model(c)
		cs := (*cp).(structure)
		cs[0] = p
		cs[3] = prev
		if prev == nil {
			s[1] = cp
		} else {
			(*prev).(structure)[4] = cp
		}
		if prev == nil {
			prev = (*value)(nil)
		}
		prev = cp
		s[2] = cp
	}
	return p
}

func zeroNodePtr(v value) *value {
	if v == nil {
		return nil
	}
	return v.(*value)
}

func init() {
	const dom = "github.com/go-shiori/dom"
	intrinsics[dom+".QuerySelector"] = func(fr *frame, a []value) value {
		m := newNodeMap()
		root := m.real(a[0].(*value))
		sel, err := cascadia.ParseGroup(conc(a[1]))
		if err != nil {
			return (*value)(nil)
		}
		r := cascadia.Query(root, sel)
		if r == nil {
			return (*value)(nil)
		}
		return m.toModel[r]
	}
	intrinsics[dom+".QuerySelectorAll"] = func(fr *frame, a []value) value {
		m := newNodeMap()
		root := m.real(a[0].(*value))
		sel, err := cascadia.ParseGroup(conc(a[1]))
		if err != nil {
			return []value(nil)
		}
		var out []value
		for _, r := range cascadia.QueryAll(root, sel) {
			out = append(out, m.toModel[r])
		}
		return out
	}
	intrinsics[dom+".OuterHTML"] = func(fr *frame, a []value) value {
		p := a[0].(*value)
		if p == nil {
			return ""
		}
		if subtreeSymbolic(p) {
			return symRender(p)
		}
		var b bytes.Buffer
		html.Render(&b, newNodeMap().real(p))
		return b.String()
	}
	intrinsics[dom+".InnerHTML"] = func(fr *frame, a []value) value {
		p := a[0].(*value)
		if p == nil {
			return ""
		}
		if subtreeSymbolic(p) {
			var out []value
			for c := np((*p).(structure)[1]); c != nil; c = np((*c).(structure)[4]) {
				out = append(out, bytesOf(symRender(c))...)
			}
			return intrinsics["strings.TrimSpace"](fr, []value{mkStr(out)})
		}
		var b bytes.Buffer
		n := newNodeMap().real(p)
		for c := n.FirstChild; c != nil; c = c.NextSibling {
			html.Render(&b, c)
		}
		return strings.TrimSpace(b.String())
	}
	intrinsics[apiPkg+".ParseHTML"] = func(fr *frame, a []value) value {
		doc, err := html.Parse(strings.NewReader(conc(a[0])))
		if err != nil {
			panic(err)
		}
		return newNodeMap().model(doc)
	}
	intrinsics["golang.org/x/net/html.Parse"] = func(fr *frame, a []value) value {
		rd := a[0].(iface).v.(*value)
		doc, err := html.Parse((*rd).(native).v.(*strings.Reader))
		if err != nil {
			return tuple{(*value)(nil), iface{}}
		}
		return tuple{newNodeMap().model(doc), iface{}}
	}
	intrinsics["golang.org/x/net/html.ParseOptionEnableScripting"] = func(fr *frame, a []value) value {
		return native{html.ParseOptionEnableScripting(a[0].(bool))}
	}
	intrinsics["golang.org/x/net/html.ParseWithOptions"] = func(fr *frame, a []value) value {
		rd := a[0].(iface).v.(*value)
		var opts []html.ParseOption
		if vs, ok := a[1].([]value); ok {
			for _, o := range vs {
				opts = append(opts, o.(native).v.(html.ParseOption))
			}
		}
		doc, err := html.ParseWithOptions((*rd).(native).v.(*strings.Reader), opts...)
		if err != nil {
			return tuple{(*value)(nil), iface{}}
		}
		return tuple{newNodeMap().model(doc), iface{}}
	}
	intrinsics["strings.NewReader"] = func(fr *frame, a []value) value {
		v := value(native{strings.NewReader(conc(a[0]))})
		return &v
	}

	// bytes.Buffer / strings.Builder: contents kept as a string in slot 0/1.
	bufGet := func(p value, slot int) value {
		s := (*p.(*value)).(structure)
		if isStr(s[slot]) {
			return s[slot]
		}
		return ""
	}
	bufSet := func(p value, slot int, v value) { (*p.(*value)).(structure)[slot] = v }
	catv := func(x value, y value) value {
		return mkStr(append(append([]value(nil), bytesOf(x)...), bytesOf(y)...))
	}
	intrinsics["(*bytes.Buffer).WriteString"] = func(fr *frame, a []value) value {
		bufSet(a[0], 0, catv(bufGet(a[0], 0), a[1]))
		return tuple{0, iface{}}
	}
	intrinsics["(*bytes.Buffer).String"] = func(fr *frame, a []value) value { return bufGet(a[0], 0) }
	intrinsics["(*bytes.Buffer).Reset"] = func(fr *frame, a []value) value { bufSet(a[0], 0, ""); return nil }
	intrinsics["bytes.NewBuffer"] = func(fr *frame, a []value) value {
		v := value(structure{"", int(0), int8(0)})
		return &v
	}

	// Generic native calls on concrete basic values.
	reg := func(name string, f interface{}) {
		fv := reflect.ValueOf(f)
		intrinsics[name] = func(fr *frame, a []value) value {
			in := make([]reflect.Value, len(a))
			for i, x := range a {
				in[i] = toNative(x, fv.Type().In(i))
			}
			out := fv.Call(in)
			if len(out) == 1 {
				return fromNative(out[0])
			}
			t := make(tuple, len(out))
			for i := range out {
				t[i] = fromNative(out[i])
			}
			return t
		}
	}
	reg("strings.Contains", strings.Contains)
	reg("strings.Count", strings.Count)
	reg("strings.LastIndex", strings.LastIndex)
	reg("strings.IndexByte", func(s string, c uint8) int { return strings.IndexByte(s, c) })
	intrinsics["strings.Cut"] = func(fr *frame, a []value) value {
		x, y, ok := strings.Cut(conc(a[0]), conc(a[1]))
		return tuple{x, y, ok}
	}
	reg("strings.HasPrefix", strings.HasPrefix)
	reg("strings.HasSuffix", strings.HasSuffix)
	reg("strings.Fields", strings.Fields)
	reg("strings.Join", strings.Join)
	reg("strings.Index", strings.Index)
	reg("strings.Split", strings.Split)
	reg("strings.Replace", strings.Replace)
	reg("strings.ReplaceAll", strings.ReplaceAll)
	reg("strings.TrimSuffix", strings.TrimSuffix)
	reg("unicode.IsSpace", func(r rune) bool { return r == ' ' || r == '\n' || r == '\t' || r == '\r' || r == '\f' || r == '\v' || r == 0x85 || r == 0xA0 })
	reg("unicode/utf8.RuneCountInString", func(s string) int { return len([]rune(s)) })
	rx := func(a value) *regexp.Regexp { return (*a.(*value)).(native).v.(*regexp.Regexp) }
	intrinsics["(*regexp.Regexp).FindStringSubmatch"] = func(fr *frame, a []value) value {
		return fromNative(reflect.ValueOf(rx(a[0]).FindStringSubmatch(conc(a[1]))))
	}
	intrinsics["(*regexp.Regexp).ReplaceAllString"] = func(fr *frame, a []value) value {
		return rx(a[0]).ReplaceAllString(conc(a[1]), conc(a[2]))
	}
	intrinsics["(*regexp.Regexp).FindAllString"] = func(fr *frame, a []value) value {
		return fromNative(reflect.ValueOf(rx(a[0]).FindAllString(conc(a[1]), int(asInt64(a[2])))))
	}
}

func toNative(x value, t reflect.Type) reflect.Value {
	switch t.Kind() {
	case reflect.String:
		return reflect.ValueOf(conc(x))
	case reflect.Int:
		return reflect.ValueOf(int(asInt64(x)))
	case reflect.Uint8:
		return reflect.ValueOf(uint8(asInt64(x)))
	case reflect.Int32:
		return reflect.ValueOf(int32(asInt64(x)))
	case reflect.Bool:
		b, ok := x.(bool)
		if !ok {
			panic(unsupported{"symbolic Boolean crosses the native bridge in " + curIntrinsic})
		}
		return reflect.ValueOf(b)
	case reflect.Int64:
		return reflect.ValueOf(asInt64(x))
	case reflect.Float64:
		f, ok := x.(float64)
		if !ok {
			panic(unsupported{"symbolic float crosses the native bridge in " + curIntrinsic})
		}
		return reflect.ValueOf(f)
	case reflect.Slice:
		xs := x.([]value)
		out := reflect.MakeSlice(t, len(xs), len(xs))
		for i, e := range xs {
			out.Index(i).Set(toNative(e, t.Elem()))
		}
		return out
	}
	panic(unsupported{"toNative " + t.String()})
}

func fromNative(v reflect.Value) value {
	switch v.Kind() {
	case reflect.String:
		return v.String()
	case reflect.Int:
		return int(v.Int())
	case reflect.Int32:
		return int32(v.Int())
	case reflect.Int64:
		return v.Int()
	case reflect.Uint8:
		return uint8(v.Uint())
	case reflect.Float64:
		return v.Float()
	case reflect.Bool:
		return v.Bool()
	case reflect.Interface:
		if v.IsNil() {
			return iface{}
		}
		if err, ok := v.Interface().(error); ok {
			return mkErr(err.Error())
		}
	case reflect.Slice:
		if v.IsNil() {
			return []value(nil)
		}
		out := make([]value, v.Len())
		for i := range out {
			out[i] = fromNative(v.Index(i))
		}
		return out
	}
	panic(unsupported{fmt.Sprintf("fromNative %s", v.Type())})
}
