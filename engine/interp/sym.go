package interp

import (
	"math/big"
	"os"
	"bufio"
	"fmt"
	"go/token"
	"go/types"
	"io"
	"os/exec"
	"strconv"
	"strings"
	"time"
)

// Sym is a symbolic value: an SMT-LIB term of the given sort.
type Sym struct {
	Sort string // "Bool", "Int", "String"
	T    string
	// LowerOf, when set, marks this string as strings.ToLower(LowerOf); T is
	// then materialised lazily (most uses compare against a constant, which
	// is encoded as a case-folded regular-expression membership instead).
	LowerOf *Sym
	MaxLen  int // known upper bound on the length of a string term (0 = unknown)
}

func isSym(v value) bool { _, ok := v.(*Sym); return ok }

func intLit(n int64) string {
	if n < 0 {
		return "(- " + strconv.FormatUint(uint64(-n), 10) + ")"
	}
	return strconv.FormatInt(n, 10)
}

func strLit(s string) string {
	var b strings.Builder
	b.WriteByte('"')
	for i := 0; i < len(s); i++ {
		c := s[i]
		if c == '"' {
			b.WriteString(`""`)
		} else if c < 0x20 || c > 0x7e || c == '\\' {
			fmt.Fprintf(&b, `\u{%x}`, c)
		} else {
			b.WriteByte(c)
		}
	}
	b.WriteByte('"')
	return b.String()
}

// term returns the SMT term denoting v (concrete or symbolic).
func term(v value) string {
	switch v := v.(type) {
	case *Sym:
		return v.T
	case bool:
		if v {
			return "true"
		}
		return "false"
	case string:
		return strLit(v)
	case int, int8, int16, int32, int64, uint, uint8, uint16, uint32, uint64, uintptr:
		return intLit(asInt64(v))
	case float64:
		// exact rational value of the binary float
		r := new(big.Rat).SetFloat64(v)
		if r == nil {
			panic(unsupported{"non-finite float"})
		}
		num, den := r.Num(), r.Denom()
		n := num.String()
		if num.Sign() < 0 {
			n = "(- " + new(big.Int).Neg(num).String() + ")"
		}
		return "(/ " + n + ".0 " + den.String() + ".0)"
	}
	panic(fmt.Sprintf("term: unsupported %T", v))
}

func sortOf(t types.Type) string {
	if b, ok := t.Underlying().(*types.Basic); ok {
		switch {
		case b.Info()&types.IsBoolean != 0:
			return "Bool"
		case b.Info()&types.IsInteger != 0:
			return "Int"
		case b.Info()&types.IsString != 0:
			return "String"
		case b.Info()&types.IsFloat != 0:
			return "Real"
		}
	}
	return ""
}

func symBinop(op token.Token, t types.Type, x, y value) value {
	so := sortOf(t)
	a, b := term(x), term(y)
	mk := func(sort, f string) value { return &Sym{Sort: sort, T: "(" + f + " " + a + " " + b + ")"} }
	switch so {
	case "Int":
		switch op {
		case token.ADD:
			return mk("Int", "+")
		case token.SUB:
			return mk("Int", "-")
		case token.MUL:
			return mk("Int", "*")
		case token.QUO:
			if X.decide(&Sym{Sort: "Bool", T: "(= " + b + " 0)"}) {
				panic("runtime error: integer divide by zero")
			}
			return mk("Int", "tdiv")
		case token.REM:
			if X.decide(&Sym{Sort: "Bool", T: "(= " + b + " 0)"}) {
				panic("runtime error: integer divide by zero")
			}
			return mk("Int", "tmod")
		case token.EQL:
			return mk("Bool", "=")
		case token.NEQ:
			return &Sym{Sort: "Bool", T: "(not (= " + a + " " + b + "))"}
		case token.LSS:
			return mk("Bool", "<")
		case token.LEQ:
			return mk("Bool", "<=")
		case token.GTR:
			return mk("Bool", ">")
		case token.GEQ:
			return mk("Bool", ">=")
		}
	case "Real":
		// float64 arithmetic over small integers is modelled in the reals
		// (see DESIGN: exact for the comparisons made when operands < 2^20)
		switch op {
		case token.ADD:
			return mk("Real", "+")
		case token.SUB:
			return mk("Real", "-")
		case token.MUL:
			return mk("Real", "*")
		case token.QUO:
			return mk("Real", "/")
		case token.EQL:
			return mk("Bool", "=")
		case token.NEQ:
			return &Sym{Sort: "Bool", T: "(not (= " + a + " " + b + "))"}
		case token.LSS:
			return mk("Bool", "<")
		case token.LEQ:
			return mk("Bool", "<=")
		case token.GTR:
			return mk("Bool", ">")
		case token.GEQ:
			return mk("Bool", ">=")
		}
	case "Bool":
		switch op {
		case token.EQL:
			return mk("Bool", "=")
		case token.NEQ:
			return &Sym{Sort: "Bool", T: "(not (= " + a + " " + b + "))"}
		}
	case "String":
		switch op {
		case token.ADD:
			return mk("String", "str.++")
		case token.EQL:
			return mk("Bool", "=")
		case token.NEQ:
			return &Sym{Sort: "Bool", T: "(not (= " + a + " " + b + "))"}
		}
	}
	if so == "Int" {
		// bitwise operators: case-split the symbolic operand(s) over the values
		// the path condition allows (meant for small domains such as flag sets)
		return binop(op, t, concretizeInt(t, x), concretizeInt(t, y))
	}
	panic(unsupported{fmt.Sprintf("symbolic binop %s on %s", op, t)})
}

// concretizeInt forks over every feasible value of a symbolic integer.
func concretizeInt(t types.Type, v value) value {
	s, ok := v.(*Sym)
	if !ok {
		return v
	}
	for n := 0; n < 64; n++ {
		r, m := X.query("", false)
		_ = m
		if r != "sat" {
			panic(pathAbort{"no value left"})
		}
		X.S.send("(push)")
		X.S.Check()
		out := X.S.GetValue([]string{s.T})
		X.S.send("(pop)")
		// parse "((term value))"
		out = strings.TrimSpace(out)
		i := strings.LastIndex(out[:len(out)-2], " ")
		lit := strings.Trim(out[i+1:len(out)-2], "() ")
		neg := strings.HasPrefix(out[i-2:], "(- ") || strings.Contains(out[len(s.T)+2:], "(-")
		k, err := strconv.ParseInt(strings.TrimPrefix(lit, "- "), 10, 64)
		if err != nil {
			panic(unsupported{"cannot parse model value " + out})
		}
		if neg {
			k = -k
		}
		if X.decide(&Sym{Sort: "Bool", T: "(= " + s.T + " " + intLit(k) + ")"}) {
			return conv(t, types.Typ[types.Int64], k)
		}
	}
	panic(unsupported{"more than 64 values for a bitwise operand"})
}

// symEquals is equals() lifted to symbolic operands: a symbolic comparison
// becomes a decision point.
func symEquals(t types.Type, x, y value) bool {
	if _, ok := x.(*SymStr); ok || isSymStr(y) {
		return decideT(strEq(x, y))
	}
	if isSym(x) || isSym(y) {
		return X.decide(&Sym{Sort: "Bool", T: "(= " + term(x) + " " + term(y) + ")"})
	}
	return equals(t, x, y)
}

// concretizeIndex turns a (possibly symbolic) integer into a concrete one in
// [0,n), forking over the feasible values; the out-of-range side panics like
// the Go runtime does.
func concretizeIndex(v value, n int, what string) int64 {
	s, ok := v.(*Sym)
	if !ok {
		return asInt64(v)
	}
	for k := 0; k < n; k++ {
		if X.decide(&Sym{Sort: "Bool", T: "(= " + s.T + " " + intLit(int64(k)) + ")"}) {
			return int64(k)
		}
	}
	panic(fmt.Sprintf("runtime error: %s out of range [sym] with length %d", what, n))
}

type unsupported struct{ what string }
type pathAbort struct{ why string }

// ---------------------------------------------------------------- solver

type Solver struct {
	cmd     *exec.Cmd
	in      io.WriteCloser
	out     *bufio.Reader
	Queries int
	Time    time.Duration
	Log     io.Writer
}

const preamble = `(set-option :produce-models true)
(define-fun tdiv ((x Int) (y Int)) Int (ite (>= x 0) (ite (> y 0) (div x y) (- (div x (- y)))) (ite (> y 0) (- (div (- x) y)) (div (- x) (- y)))))
(define-fun lc ((c String)) String (ite (and (= (str.len c) 1) (<= 65 (str.to_code c)) (<= (str.to_code c) 90)) (str.from_code (+ (str.to_code c) 32)) c))
(define-fun tmod ((x Int) (y Int)) Int (- x (* y (tdiv x y))))
`

func NewSolver(bin string, args ...string) *Solver {
	cmd := exec.Command(bin, args...)
	in, _ := cmd.StdinPipe()
	out, _ := cmd.StdoutPipe()
	cmd.Stderr = cmd.Stdout
	if err := cmd.Start(); err != nil {
		panic(err)
	}
	s := &Solver{cmd: cmd, in: in, out: bufio.NewReader(out)}
	s.send(preamble)
	return s
}

func (s *Solver) send(t string) {
	if s.Log != nil {
		io.WriteString(s.Log, t+"\n")
	}
	io.WriteString(s.in, t+"\n")
}

func (s *Solver) readLine() string {
	l, err := s.out.ReadString('\n')
	if err != nil {
		panic("solver died: " + err.Error())
	}
	return strings.TrimSpace(l)
}

// Check returns "sat", "unsat" or "unknown"/error text.
func (s *Solver) Check() string {
	t0 := time.Now()
	s.send("(check-sat)")
	r := s.readLine()
	s.Queries++
	d := time.Since(t0)
	s.Time += d
	if d > 2*time.Second {
		fmt.Fprintf(os.Stderr, "slow query #%d: %v -> %s\n", s.Queries, d, r)
	}
	if s.Queries%2000 == 0 {
		fmt.Fprintf(os.Stderr, "queries=%d solver=%v\n", s.Queries, s.Time)
	}
	return r
}

func (s *Solver) GetValue(names []string) string {
	if len(names) == 0 {
		return ""
	}
	s.send("(get-value (" + strings.Join(names, " ") + "))")
	depth, buf := 0, ""
	for {
		l := s.readLine()
		buf += l + " "
		depth += strings.Count(l, "(") - strings.Count(l, ")")
		if depth <= 0 {
			return buf
		}
	}
}

// ---------------------------------------------------------------- explorer

type Violation struct {
	Msg   string
	Model string
	Trace []bool
}

type Explorer struct {
	pc         []string
	funcs      map[string]int
	S          *Solver
	prefix     []bool
	pos        int
	trace      []bool
	work       [][]bool
	consts     []string
	nameCount  map[string]int
	Paths      int
	Infeasible int
	Decisions  int
	Violations []Violation
	MaxSteps   int
	steps      int
	Covered    map[string]int
}

// X is the explorer driving the current path (one per process).
var X *Explorer

func (e *Explorer) fresh(name, sort string) *Sym {
	n := e.nameCount[name]
	e.nameCount[name] = n + 1
	id := fmt.Sprintf("%s!%d", name, n)
	e.emit("(declare-const |" + id + "| " + sort + ")")
	e.consts = append(e.consts, "|"+id+"|")
	return &Sym{Sort: sort, T: "|" + id + "|"}
}

func (e *Explorer) assert(t string) { e.emit("(assert " + t + ")") }

// emit adds a declaration/definition/assertion to the path condition.
func (e *Explorer) emit(l string) {
	e.pc = append(e.pc, l)
	if Incremental {
		e.S.send(l)
	}
}

// MapOrderAll makes every range over a map explore all iteration orders.
var MapOrderAll bool

var DebugDecide io.Writer

func (e *Explorer) where() string {
	if CurFrame == nil {
		return "?"
	}
	return CurFrame.fn.String()
}

// CurFrame is the innermost interpreted frame (for diagnostics).
var CurFrame *frame

// Incremental selects push/pop solving (fine for the integer/Boolean
// encoding) instead of reset-and-resend.
var Incremental = true

// query checks the path condition plus extra (may be ""), optionally
// returning a model. Incremental mode uses push/pop; stateless mode re-sends
// the whole path condition after (reset).
func (e *Explorer) query(extra string, wantModel bool) (string, string) {
	if Incremental {
		e.S.send("(push)")
	} else {
		e.S.send("(reset)\n" + preamble + strings.Join(e.pc, "\n"))
	}
	if extra != "" {
		e.S.send("(assert " + extra + ")")
	}
	r := e.S.Check()
	m := ""
	if r == "sat" && wantModel {
		m = e.S.GetValue(e.consts)
	}
	if Incremental {
		e.S.send("(pop)")
	}
	return r, m
}

func (e *Explorer) checkWith(t string) string { r, _ := e.query(t, false); return r }

func neg(t string) string { return "(not " + t + ")" }

func (e *Explorer) decide(c *Sym) bool {
	e.Decisions++
	if DebugDecide != nil && e.Paths == 3000 {
		fmt.Fprintf(DebugDecide, "path %d decide #%d %s   @ %s\n", e.Paths, e.pos, c.T, e.where())
	}
	if e.pos < len(e.prefix) {
		b := e.prefix[e.pos]
		e.pos++
		e.trace = append(e.trace, b)
		if b {
			e.assert(c.T)
		} else {
			e.assert(neg(c.T))
		}
		return b
	}
	rt := e.checkWith(c.T)
	rf := e.checkWith(neg(c.T))
	if rt != "sat" && rt != "unsat" || rf != "sat" && rf != "unsat" {
		panic(unsupported{"solver answered " + rt + "/" + rf + " on " + c.T})
	}
	var b bool
	switch {
	case rt == "sat" && rf == "sat":
		alt := append(append([]bool(nil), e.trace...), false)
		e.work = append(e.work, alt)
		b = true
	case rt == "sat":
		b = true
	case rf == "sat":
		b = false
	default:
		panic(pathAbort{"both branches infeasible"})
	}
	e.pos++
	e.prefix = append(e.prefix, b)
	e.trace = append(e.trace, b)
	if b {
		e.assert(c.T)
	} else {
		e.assert(neg(c.T))
	}
	return b
}

func (e *Explorer) assume(v value) {
	switch v := v.(type) {
	case bool:
		if !v {
			panic(pathAbort{"assume(false)"})
		}
	case *Sym:
		e.assert(v.T)
		if r := e.checkWith(""); r != "sat" {
			if r != "unsat" {
				panic(unsupported{"solver answered " + r})
			}
			panic(pathAbort{"assumption infeasible"})
		}
	}
}

func (e *Explorer) assertProp(v value, msg string) {
	switch v := v.(type) {
	case bool:
		if !v {
			e.violation(msg)
		}
	case *Sym:
		r, m := e.query(neg(v.T), true)
		if r == "sat" {
			e.Violations = append(e.Violations, Violation{msg, m, append([]bool(nil), e.trace...)})
		} else if r != "unsat" {
			panic(unsupported{"solver answered " + r})
		}
		e.assert(v.T)
	}
}

func (e *Explorer) violation(msg string) {
	_, m := e.query("", true)
	e.Violations = append(e.Violations, Violation{msg, m, append([]bool(nil), e.trace...)})
}

func isSymStr(v value) bool { _, ok := v.(*SymStr); return ok }

// strBinop implements + == != on strings with symbolic bytes.
func strBinop(op token.Token, x, y value) value {
	switch op {
	case token.ADD:
		return mkStr(append(append([]value(nil), bytesOf(x)...), bytesOf(y)...))
	case token.EQL:
		return boolVal(strEq(x, y))
	case token.NEQ:
		switch t := strEq(x, y); t {
		case "true":
			return false
		case "false":
			return true
		default:
			return sbool("(not " + t + ")")
		}
	}
	panic(unsupported{"string operator " + op.String() + " on symbolic bytes"})
}
