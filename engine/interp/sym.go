package interp

import (
	"fmt"
	"go/token"
	"go/types"
	"math/big"
	"strconv"
	"strings"
)

// Sym is a symbolic value: an SMT-LIB term of the given sort.
type Sym struct {
	Sort string // "Bool", "Int", "String"
	T    string
	// LowerOf, when set, marks this string as strings.ToLower(LowerOf); T is
	// then materialised lazily (most uses compare against a constant, which
	// is encoded as a case-folded regular-expression membership instead).
	LowerOf *Sym
	MaxLen  int // known upper bound on the length of a string term (0 = unknown)
	// interval of an Int term, maintained by interval arithmetic; used to
	// detect that a machine integer could leave its type's range (the path is
	// then inconclusive: mathematical integers must not stand in for words
	// that wrap).
	Lo, Hi  int64
	Bounded bool
	// Num/Den: this Real term is the quotient Num/Den of two Real terms.
	// Comparisons of a quotient with a constant are cross-multiplied, which
	// keeps the encoding linear (a/b <= c  <=>  a <= c*b for b > 0).
	Num, Den string
}

func isSym(v value) bool { _, ok := v.(*Sym); return ok }

func intLit(n int64) string {
	if n < 0 {
		return "(- " + strconv.FormatUint(uint64(-n), 10) + ")"
	}
	return strconv.FormatInt(n, 10)
}

func strLit(s string) string {
	var b strings.Builder
	b.WriteByte('"')
	for i := 0; i < len(s); i++ {
		c := s[i]
		if c == '"' {
			b.WriteString(`""`)
		} else if c < 0x20 || c > 0x7e || c == '\\' {
			fmt.Fprintf(&b, `\u{%x}`, c)
		} else {
			b.WriteByte(c)
		}
	}
	b.WriteByte('"')
	return b.String()
}

// term returns the SMT term denoting v (concrete or symbolic).
func term(v value) string {
	switch v := v.(type) {
	case *Sym:
		return v.T
	case bool:
		if v {
			return "true"
		}
		return "false"
	case string:
		return strLit(v)
	case int, int8, int16, int32, int64, uint, uint8, uint16, uint32, uint64, uintptr:
		return intLit(asInt64(v))
	case float64:
		// exact rational value of the binary float
		r := new(big.Rat).SetFloat64(v)
		if r == nil {
			panic(unsupported{"non-finite float"})
		}
		num, den := r.Num(), r.Denom()
		n := num.String()
		if num.Sign() < 0 {
			n = "(- " + new(big.Int).Neg(num).String() + ")"
		}
		return "(/ " + n + ".0 " + den.String() + ".0)"
	}
	panic(fmt.Sprintf("term: unsupported %T", v))
}

func sortOf(t types.Type) string {
	if b, ok := t.Underlying().(*types.Basic); ok {
		switch {
		case b.Info()&types.IsBoolean != 0:
			return "Bool"
		case b.Info()&types.IsInteger != 0:
			return "Int"
		case b.Info()&types.IsString != 0:
			return "String"
		case b.Info()&types.IsFloat != 0:
			return "Real"
		}
	}
	return ""
}

func symBinop(op token.Token, t types.Type, x, y value) value {
	so := sortOf(t)
	a, b := term(x), term(y)
	mk := func(sort, f string) value { return &Sym{Sort: sort, T: "(" + f + " " + a + " " + b + ")"} }
	switch so {
	case "Int":
		switch op {
		case token.ADD, token.SUB, token.MUL:
			r := mk("Int", map[token.Token]string{token.ADD: "+", token.SUB: "-", token.MUL: "*"}[op]).(*Sym)
			intervalArith(op, t, x, y, r)
			return r
		case token.QUO:
			if X.decide(&Sym{Sort: "Bool", T: "(= " + b + " 0)"}) {
				panic("runtime error: integer divide by zero")
			}
			r := mk("Int", "tdiv").(*Sym)
			intervalArith(op, t, x, y, r)
			return r
		case token.REM:
			if X.decide(&Sym{Sort: "Bool", T: "(= " + b + " 0)"}) {
				panic("runtime error: integer divide by zero")
			}
			r := mk("Int", "tmod").(*Sym)
			intervalArith(op, t, x, y, r)
			return r
		case token.EQL:
			return mk("Bool", "=")
		case token.NEQ:
			return &Sym{Sort: "Bool", T: "(not (= " + a + " " + b + "))"}
		case token.LSS:
			return mk("Bool", "<")
		case token.LEQ:
			return mk("Bool", "<=")
		case token.GTR:
			return mk("Bool", ">")
		case token.GEQ:
			return mk("Bool", ">=")
		}
	case "Real":
		// float64 arithmetic over small integers is modelled in the reals
		// (see DESIGN: exact for the comparisons made when operands < 2^20)
		switch op {
		case token.ADD:
			return mk("Real", "+")
		case token.SUB:
			return mk("Real", "-")
		case token.MUL:
			return mk("Real", "*")
		case token.QUO:
			if isSym(y) {
				// division by zero is IEEE Inf/NaN in Go; the code under test
				// guards it, and the reals have no such value: decide it
				if X.decide(&Sym{Sort: "Bool", T: "(= " + b + " 0.0)"}) {
					panic(unsupported{"float division by a symbolic zero"})
				}
			}
			q := mk("Real", "/").(*Sym)
			q.Num, q.Den = a, b
			return q
		case token.EQL, token.NEQ, token.LSS, token.LEQ, token.GTR, token.GEQ:
			if t := quotCompare(op, x, y); t != "" {
				return &Sym{Sort: "Bool", T: t}
			}
		}
		switch op {
		case token.EQL:
			return mk("Bool", "=")
		case token.NEQ:
			return &Sym{Sort: "Bool", T: "(not (= " + a + " " + b + "))"}
		case token.LSS:
			return mk("Bool", "<")
		case token.LEQ:
			return mk("Bool", "<=")
		case token.GTR:
			return mk("Bool", ">")
		case token.GEQ:
			return mk("Bool", ">=")
		}
	case "Bool":
		switch op {
		case token.EQL:
			return mk("Bool", "=")
		case token.NEQ:
			return &Sym{Sort: "Bool", T: "(not (= " + a + " " + b + "))"}
		}
	case "String":
		switch op {
		case token.ADD:
			return mk("String", "str.++")
		case token.EQL:
			return mk("Bool", "=")
		case token.NEQ:
			return &Sym{Sort: "Bool", T: "(not (= " + a + " " + b + "))"}
		}
	}
	if so == "Int" {
		// bitwise operators: case-split the symbolic operand(s) over the values
		// the path condition allows (meant for small domains such as flag sets)
		return binop(op, t, concretizeInt(t, x), concretizeInt(t, y))
	}
	panic(unsupported{fmt.Sprintf("symbolic binop %s on %s", op, t)})
}

// concretizeInt forks over every feasible value of a symbolic integer.
func concretizeInt(t types.Type, v value) value {
	s, ok := v.(*Sym)
	if !ok {
		return v
	}
	for n := 0; n < 64; n++ {
		X.S.send("(push)")
		r := X.S.Check()
		if r != "sat" {
			X.S.send("(pop)")
			if r == "unsat" {
				panic(pathAbort{"no value left"})
			}
			panic(unsupported{"solver answered unknown while enumerating values"})
		}
		m := parseModel(X.S.GetValue([]string{s.T}), []string{s.T})
		X.S.send("(pop)")
		k, err := strconv.ParseInt(m[s.T], 10, 64)
		if err != nil {
			panic(unsupported{"cannot parse model value " + m[s.T]})
		}
		if X.decide(&Sym{Sort: "Bool", T: "(= " + s.T + " " + intLit(k) + ")"}) {
			return conv(t, types.Typ[types.Int64], k)
		}
	}
	panic(unsupported{"more than 64 values for a bitwise operand"})
}

// symEquals is equals() lifted to symbolic operands: a symbolic comparison
// becomes a decision point.
func symEquals(t types.Type, x, y value) bool {
	if _, ok := x.(*SymStr); ok || isSymStr(y) {
		return decideT(strEq(x, y))
	}
	if isSym(x) || isSym(y) {
		return X.decide(&Sym{Sort: "Bool", T: "(= " + term(x) + " " + term(y) + ")"})
	}
	return equals(t, x, y)
}

// concretizeIndex turns a (possibly symbolic) integer into a concrete one in
// [0,n), forking over the feasible values; the out-of-range side panics like
// the Go runtime does.
func concretizeIndex(v value, n int, what string) int64 {
	s, ok := v.(*Sym)
	if !ok {
		return asInt64(v)
	}
	for k := 0; k < n; k++ {
		if X.decide(&Sym{Sort: "Bool", T: "(= " + s.T + " " + intLit(int64(k)) + ")"}) {
			return int64(k)
		}
	}
	panic(fmt.Sprintf("runtime error: %s out of range [sym] with length %d", what, n))
}

type unsupported struct{ what string }
type pathAbort struct{ why string }

func isSymStr(v value) bool { _, ok := v.(*SymStr); return ok }

// strBinop implements + == != on strings with symbolic bytes.
func strBinop(op token.Token, x, y value) value {
	switch op {
	case token.ADD:
		return mkStr(append(append([]value(nil), bytesOf(x)...), bytesOf(y)...))
	case token.EQL:
		return boolVal(strEq(x, y))
	case token.NEQ:
		switch t := strEq(x, y); t {
		case "true":
			return false
		case "false":
			return true
		default:
			return sbool("(not " + t + ")")
		}
	}
	panic(unsupported{"string operator " + op.String() + " on symbolic bytes"})
}

// quotCompare encodes (n/d) op c, or c op (n/d), for a constant c without
// division: for d > 0 as n op c*d, for d < 0 with the comparison reversed.
func quotCompare(op token.Token, x, y value) string {
	qs, isQ := x.(*Sym)
	other := y
	swapped := false
	if !isQ || qs.Den == "" {
		qs, isQ = y.(*Sym)
		other = x
		swapped = true
	}
	if !isQ || qs.Den == "" || isSym(other) {
		return ""
	}
	c := term(other)
	rel := map[token.Token]string{token.EQL: "=", token.NEQ: "=", token.LSS: "<", token.LEQ: "<=", token.GTR: ">", token.GEQ: ">="}[op]
	rev := map[string]string{"=": "=", "<": ">", "<=": ">=", ">": "<", ">=": "<="}
	if swapped {
		rel = rev[rel]
	}
	prod := "(* " + c + " " + qs.Den + ")"
	t := "(ite (> " + qs.Den + " 0.0) (" + rel + " " + qs.Num + " " + prod + ") (" + rev[rel] + " " + qs.Num + " " + prod + "))"
	if op == token.NEQ {
		t = "(not " + t + ")"
	}
	return t
}

// ---- interval tracking of symbolic machine integers -----------------------
// Integers are encoded as mathematical integers. To make sure they never
// stand in for machine words that wrap, every Int term carries an interval
// computed by interval arithmetic; an operation whose result interval leaves
// the range of its Go type (or whose operand has no known interval) makes the
// run inconclusive instead of silently mis-modelling wrap-around.

func ivalOf(v value) (lo, hi int64, ok bool) {
	switch x := v.(type) {
	case *Sym:
		return x.Lo, x.Hi, x.Bounded
	case int, int8, int16, int32, int64, uint, uint8, uint16, uint32, uintptr:
		n := asInt64(x)
		return n, n, true
	case uint64:
		if x > 1<<62 {
			return 0, 0, false
		}
		return int64(x), int64(x), true
	}
	return 0, 0, false
}

func typeRange(t types.Type) (lo, hi int64) {
	b, _ := t.Underlying().(*types.Basic)
	if b == nil {
		return -1 << 62, 1 << 62
	}
	switch b.Kind() {
	case types.Int8:
		return -128, 127
	case types.Int16:
		return -32768, 32767
	case types.Int32:
		return -1 << 31, 1<<31 - 1
	case types.Uint8:
		return 0, 255
	case types.Uint16:
		return 0, 65535
	case types.Uint32:
		return 0, 1<<32 - 1
	case types.Uint, types.Uint64, types.Uintptr:
		return 0, 1 << 62
	}
	return -1 << 62, 1 << 62 // int, int64 (kept one bit short so the checks themselves cannot overflow)
}

const ivalLimit = int64(1) << 31 // operands beyond this are treated as unbounded (products stay below 2^62)

func setIval(r *Sym, t types.Type, lo, hi int64, op string) {
	tl, th := typeRange(t)
	if lo < tl || hi > th {
		panic(unsupported{fmt.Sprintf("symbolic %s on %s may leave the range of the type (interval [%d,%d]): wrap-around is not modelled", op, t, lo, hi)})
	}
	r.Lo, r.Hi, r.Bounded = lo, hi, true
}

func intervalArith(op token.Token, t types.Type, x, y value, r *Sym) {
	xl, xh, xok := ivalOf(x)
	yl, yh, yok := ivalOf(y)
	big := func(a int64) bool { return a > ivalLimit || a < -ivalLimit }
	if !xok || !yok || big(xl) || big(xh) || big(yl) || big(yh) {
		panic(unsupported{fmt.Sprintf("symbolic %s on %s with an operand of unknown range: overflow cannot be excluded", op, t)})
	}
	min4 := func(a, b, c, d int64) (int64, int64) {
		lo, hi := a, a
		for _, v := range []int64{b, c, d} {
			if v < lo {
				lo = v
			}
			if v > hi {
				hi = v
			}
		}
		return lo, hi
	}
	switch op {
	case token.ADD:
		setIval(r, t, xl+yl, xh+yh, "+")
	case token.SUB:
		setIval(r, t, xl-yh, xh-yl, "-")
	case token.MUL:
		lo, hi := min4(xl*yl, xl*yh, xh*yl, xh*yh)
		setIval(r, t, lo, hi, "*")
	case token.QUO:
		// truncated division never increases the magnitude
		m := xh
		if -xl > m {
			m = -xl
		}
		setIval(r, t, -m, m, "/")
		if xl >= 0 && yl > 0 {
			r.Lo = 0
		}
	case token.REM:
		m := yh
		if -yl > m {
			m = -yl
		}
		if xl >= 0 {
			setIval(r, t, 0, m, "%")
		} else {
			setIval(r, t, -m, m, "%")
		}
	}
}
