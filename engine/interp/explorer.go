package interp

import (
	"fmt"
	"io"
	"os"
	"sort"
	"strconv"
	"strings"
)

// Input is the table of concrete values of one execution (same JSON layout as
// the harness API's Input).
type Input struct {
	Bools  map[string][]bool  `json:"bools"`
	Ints   map[string][]int   `json:"ints"`
	Strs   map[string][][]int `json:"strs"`
	Params map[string]int     `json:"params"`
	Random int64              `json:"random"`
}

func newInput() *Input {
	return &Input{Bools: map[string][]bool{}, Ints: map[string][]int{}, Strs: map[string][][]int{}, Params: map[string]int{}}
}

type inputRec struct {
	kind  byte // 'b', 'i', 's'
	name  string
	terms []value // one for b/i; one per byte for s (uint8 or *Sym)
}

// Violation is a candidate property violation: it is reported only after the
// driver has replayed Input against the natively compiled code.
type Violation struct {
	Kind  string `json:"kind"` // assert | panic | write | global | hang
	Msg   string `json:"msg"`
	Where string `json:"where,omitempty"`
	Input *Input `json:"input"`
	Trace string `json:"trace"`
}

type Explorer struct {
	S          *Solver
	pc         []string
	funcs      map[string]int
	prefix     []bool
	pos        int
	trace      []bool
	work       [][]bool
	consts     []string
	inputs     []inputRec
	nameCount  map[string]int
	Paths      int
	Infeasible int
	Decisions  int
	Forks      int
	Obligations int // assertion / safety queries issued
	Discharged  int // ... answered unsat (or concretely true)
	Violations []Violation
	vcount     map[string]int
	MaxSteps   int
	steps      int
	Covered    map[string]int
	Observed   []string
	Params     map[string]int
	Concrete   *Input // concrete mode: nondet values come from this table
	Canary     bool   // every Assert is replaced by Assert(false) at its first execution on a path
	samples    []string
	defCount   int
	mapOrders  int
}

// X is the explorer driving the current path (one per process).
var X *Explorer

const maxViolationsPerMsg = 3

func (e *Explorer) fresh(name, sort string) *Sym {
	n := e.nameCount[name]
	e.nameCount[name] = n + 1
	id := "|" + name + "!" + strconv.Itoa(n) + "|"
	e.emit("(declare-const " + id + " " + sort + ")")
	e.consts = append(e.consts, id)
	return &Sym{Sort: sort, T: id}
}

func (e *Explorer) assert(t string) { e.emit("(assert " + t + ")") }

// emit adds a declaration/definition/assertion to the path condition.
func (e *Explorer) emit(l string) {
	e.pc = append(e.pc, l)
	e.S.send(l)
}

// MapOrderAll makes every range over a map explore all iteration orders.
var MapOrderAll bool

// MapOrderMode: 0 insertion order, 1 reversed, 2 all permutations (fork), 3 rotated by one.
var MapOrderMode int

var DebugDecide io.Writer

func (e *Explorer) where() string {
	if CurFrame == nil {
		return "?"
	}
	fr := CurFrame
	s := fr.fn.String()
	if fr.curInstr != nil && fr.curInstr.Pos().IsValid() {
		p := fr.i.prog.Fset.Position(fr.curInstr.Pos())
		s += fmt.Sprintf(" (%s:%d)", shortFile(p.Filename), p.Line)
	}
	return s
}

func shortFile(f string) string {
	if i := strings.Index(f, "/repo/"); i >= 0 {
		return f[i+6:]
	}
	if i := strings.LastIndex(f, "/pkg/mod/"); i >= 0 {
		return f[i+9:]
	}
	return f
}

// targetWhere returns the innermost frame that is not harness/api code.
func (e *Explorer) targetWhere() string {
	for fr := CurFrame; fr != nil; fr = fr.caller {
		name := fr.fn.String()
		if strings.Contains(name, "Harness") || strings.Contains(name, "zzverif") || strings.Contains(name, "zz_") {
			continue
		}
		s := name
		if fr.curInstr != nil && fr.curInstr.Pos().IsValid() {
			p := fr.i.prog.Fset.Position(fr.curInstr.Pos())
			s += fmt.Sprintf(" (%s:%d)", shortFile(p.Filename), p.Line)
		}
		return s
	}
	return e.where()
}

// CurFrame is the innermost interpreted frame (for diagnostics).
var CurFrame *frame

// query checks the path condition plus extra (may be "").
func (e *Explorer) query(extra string) string {
	e.S.send("(push)")
	if extra != "" {
		e.S.send("(assert " + extra + ")")
	}
	r := e.S.Check()
	e.S.send("(pop)")
	return r
}

// queryModel is query that also extracts the concrete input table when sat.
func (e *Explorer) queryModel(extra string) (string, *Input) {
	e.S.send("(push)")
	if extra != "" {
		e.S.send("(assert " + extra + ")")
	}
	r := e.S.Check()
	var in *Input
	if r == "sat" {
		in = e.extractInput()
	}
	e.S.send("(pop)")
	return r, in
}

func (e *Explorer) extractInput() *Input {
	in := newInput()
	for k, v := range e.Params {
		in.Params[k] = v
	}
	var terms []string
	for _, r := range e.inputs {
		for _, t := range r.terms {
			if s, ok := t.(*Sym); ok {
				terms = append(terms, s.T)
			}
		}
	}
	m := map[string]string{}
	const chunk = 200
	for i := 0; i < len(terms); i += chunk {
		j := i + chunk
		if j > len(terms) {
			j = len(terms)
		}
		for k, v := range parseModel(e.S.GetValue(terms[i:j]), terms[i:j]) {
			m[k] = v
		}
	}
	intOf := func(t value) int {
		switch t := t.(type) {
		case *Sym:
			n, _ := strconv.Atoi(m[t.T])
			return n
		default:
			return int(asInt64(t))
		}
	}
	for _, r := range e.inputs {
		switch r.kind {
		case 'b':
			b := false
			switch t := r.terms[0].(type) {
			case *Sym:
				b = m[t.T] == "true"
			case bool:
				b = t
			}
			in.Bools[r.name] = append(in.Bools[r.name], b)
		case 'i':
			in.Ints[r.name] = append(in.Ints[r.name], intOf(r.terms[0]))
		case 's':
			bs := make([]int, len(r.terms))
			for i, t := range r.terms {
				bs[i] = intOf(t)
			}
			in.Strs[r.name] = append(in.Strs[r.name], bs)
		}
	}
	return in
}

func neg(t string) string { return "(not " + t + ")" }

func traceString(t []bool) string {
	b := make([]byte, len(t))
	for i, x := range t {
		if x {
			b[i] = '1'
		} else {
			b[i] = '0'
		}
	}
	return string(b)
}

func parseTrace(s string) []bool {
	t := make([]bool, 0, len(s))
	for i := 0; i < len(s); i++ {
		t = append(t, s[i] == '1')
	}
	return t
}

func (e *Explorer) follow(b bool, t string) bool {
	e.pos++
	e.trace = append(e.trace, b)
	if t != "" {
		if b {
			e.assert(t)
		} else {
			e.assert(neg(t))
		}
	}
	return b
}

// decide forks on a symbolic condition: both sides are checked for
// feasibility, the infeasible ones are pruned.
func (e *Explorer) decide(c *Sym) bool {
	e.Decisions++
	if DebugDecide != nil {
		fmt.Fprintf(DebugDecide, "path %d decide #%d %s   @ %s\n", e.Paths, e.pos, c.T, e.where())
	}
	if e.pos < len(e.prefix) {
		return e.follow(e.prefix[e.pos], c.T)
	}
	rt := e.query(c.T)
	rf := "unsat"
	if rt == "unsat" {
		// the path condition itself is satisfiable (invariant), so the other
		// side must be; no second query needed
		rf = "sat"
	} else {
		rf = e.query(neg(c.T))
	}
	if rt == "unknown" || rf == "unknown" {
		panic(unsupported{"solver answered unknown on a branch condition in " + e.where()})
	}
	if CrossDir != "" && (rt == "unsat" || rf == "unsat" || e.Decisions%97 == 0) {
		// pruning rests on unsat answers: let other solvers re-decide a sample
		if rt == "unsat" {
			e.dumpObligation(c.T, "unsat", "branch pruned (true side) in "+e.where())
		} else if rf == "unsat" {
			e.dumpObligation(neg(c.T), "unsat", "branch pruned (false side) in "+e.where())
		} else {
			e.dumpObligation(c.T, "sat", "branch feasible in "+e.where())
		}
	}
	var b bool
	switch {
	case rt == "sat" && rf == "sat":
		alt := append(append([]bool(nil), e.trace...), false)
		e.work = append(e.work, alt)
		e.Forks++
		b = true
	case rt == "sat":
		b = true
	default:
		b = false
	}
	e.prefix = append(e.prefix, b)
	return e.follow(b, c.T)
}

// choose forks n ways without consulting the solver (structural menus).
func (e *Explorer) choose(n int) int {
	for k := 0; k < n-1; k++ {
		e.Decisions++
		var b bool
		if e.pos < len(e.prefix) {
			b = e.prefix[e.pos]
		} else {
			alt := append(append([]bool(nil), e.trace...), false)
			e.work = append(e.work, alt)
			e.Forks++
			b = true
			e.prefix = append(e.prefix, b)
		}
		e.follow(b, "")
		if b {
			return k
		}
	}
	return n - 1
}

func (e *Explorer) assume(v value) {
	switch v := v.(type) {
	case bool:
		if !v {
			panic(pathAbort{"assume(false)"})
		}
	case *Sym:
		e.assert(v.T)
		if e.pos < len(e.prefix) {
			return // feasibility was established when the prefix was first explored
		}
		if r := e.query(""); r != "sat" {
			if r != "unsat" {
				panic(unsupported{"solver answered unknown on an assumption"})
			}
			panic(pathAbort{"assumption infeasible"})
		}
	}
}

func (e *Explorer) assertProp(v value, msg string) {
	e.Obligations++
	if e.Canary {
		v = false
	}
	switch v := v.(type) {
	case bool:
		if !v {
			e.addViolation("assert", msg, "")
		} else {
			e.Discharged++
		}
	case *Sym:
		if e.vcount[msg] >= maxViolationsPerMsg*4 {
			// already refuted often enough; do not spend solver time on it again
			e.assert(v.T)
			if r := e.query(""); r != "sat" {
				panic(pathAbort{"assertion never holds on this path"})
			}
			return
		}
		r, in := e.queryModel(neg(v.T))
		e.dumpObligation(neg(v.T), r, msg)
		switch r {
		case "sat":
			e.record(Violation{Kind: "assert", Msg: msg, Input: in, Trace: traceString(e.trace)})
		case "unsat":
			e.Discharged++
		default:
			panic(unsupported{"solver answered unknown on assertion: " + msg})
		}
		// continue on the side where the assertion holds
		e.assert(v.T)
		if r == "sat" {
			if r2 := e.query(""); r2 == "unsat" {
				panic(pathAbort{"assertion never holds on this path"})
			} else if r2 != "sat" {
				panic(unsupported{"solver answered unknown after assertion"})
			}
		}
	}
}

func (e *Explorer) addViolation(kind, msg, where string) {
	if e.vcount[kind+":"+msg] >= maxViolationsPerMsg {
		e.vcount[kind+":"+msg]++
		return
	}
	var in *Input
	if e.Concrete != nil {
		in = e.Concrete
	} else {
		_, in = e.queryModel("")
	}
	e.record(Violation{Kind: kind, Msg: msg, Where: where, Input: in, Trace: traceString(e.trace)})
}

func (e *Explorer) record(v Violation) {
	k := v.Kind + ":" + v.Msg
	e.vcount[k]++
	if e.vcount[k] <= maxViolationsPerMsg {
		e.Violations = append(e.Violations, v)
	}
}

// sample records a human-readable description of the current path (evidence).
func (e *Explorer) sample() {
	if len(e.samples) >= 5 || e.Concrete != nil {
		return
	}
	if e.Paths%7 != 0 && len(e.samples) > 0 {
		return
	}
	_, in := e.queryModel("")
	if in == nil {
		return
	}
	var parts []string
	for k, v := range in.Ints {
		parts = append(parts, fmt.Sprintf("%s=%v", k, v))
	}
	for k, v := range in.Bools {
		parts = append(parts, fmt.Sprintf("%s=%v", k, v))
	}
	for k, v := range in.Strs {
		var ss []string
		for _, bs := range v {
			b := make([]byte, len(bs))
			for i, x := range bs {
				b[i] = byte(x)
			}
			ss = append(ss, strconv.Quote(string(b)))
		}
		parts = append(parts, fmt.Sprintf("%s=%s", k, strings.Join(ss, ",")))
	}
	sort.Strings(parts)
	s := "path " + traceString(e.trace) + ": " + strings.Join(parts, " ")
	if len(s) > 600 {
		s = s[:600] + "..."
	}
	e.samples = append(e.samples, s)
}

// define introduces a named Boolean for a term to keep formulas linear.
func define(t string) string {
	if t == "true" || t == "false" || !strings.HasPrefix(t, "(") {
		return t
	}
	X.defCount++
	n := fmt.Sprintf("|d!%d|", X.defCount)
	X.emit("(define-fun " + n + " () Bool " + t + ")")
	return n
}

// CrossDir, when set, receives standalone SMT-LIB2 files of assertion
// obligations (path condition + negated assertion + expected answer) so that
// other solvers can re-decide them (thorough tier cross-check).
var CrossDir string
var CrossLimit = 40
var crossCount int
var crossPerMsg = map[string]int{}

func (e *Explorer) dumpObligation(negated, answer, msg string) {
	if CrossDir == "" || crossCount >= CrossLimit || crossPerMsg[msg] >= 6 {
		return
	}
	crossCount++
	crossPerMsg[msg]++
	var sb strings.Builder
	sb.WriteString("; expected: " + answer + "\n; assertion: " + strings.ReplaceAll(msg, "\n", " ") + "\n(set-logic ALL)\n")
	sb.WriteString(preamble)
	for _, l := range e.pc {
		sb.WriteString(l + "\n")
	}
	sb.WriteString("(assert " + negated + ")\n(check-sat)\n")
	os.WriteFile(fmt.Sprintf("%s/ob-%d-%d.smt2", CrossDir, os.Getpid(), crossCount), []byte(sb.String()), 0o644)
}
